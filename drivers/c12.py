"""C12 - the circuit DAG stays structurally consistent under any edit history.

M : MC_CircuitDag - all edit histories (add / insert-at-compatible-pair / remove) up to a depth bound on 3 registers:
    the wire machine stays acyclic, the compatibility rule is sound.
J : random edit histories on the real CircuitDAG (from empty circuits, benchmark circuits and solver outputs), the
    COMPLETE structure (nodes, edges, node_dict, edge_dict, registers, sequence(), find_incompatible_edges) logged
    after every edit and judged by Trace_CircuitDag.tla.
"""
from __future__ import annotations

from engine import circuits as cz
from engine import project as pj

ONEQ = cz.ONEQ


def rand_op_spec(rng, regs_q, n_c, allow_new=True):
    """A random operation spec on existing registers (regs_q: list of [type, idx])."""
    r = rng.random()
    if r < 0.35 or len(regs_q) < 2:
        if rng.random() < 0.3:
            w = rng.choice(cz.library_wrappers())
            return {"k": "OneQubitGateWrapper", "r": [rng.choice(regs_q)], "c": None, "w": w}
        return {"k": rng.choice(ONEQ), "r": [rng.choice(regs_q)], "c": None}
    if r < 0.65:
        a, b = rng.sample(regs_q, 2)
        return {"k": rng.choice(cz.TWOQ), "r": [a, b], "c": None}
    if r < 0.8 and n_c > 0:
        return {"k": "MeasurementZ", "r": [rng.choice(regs_q)], "c": rng.randrange(n_c)}
    if n_c > 0:
        a, b = rng.sample(regs_q, 2)
        return {"k": rng.choice(cz.CCTRL), "r": [a, b], "c": rng.randrange(n_c)}
    a, b = rng.sample(regs_q, 2)
    return {"k": "CNOT", "r": [a, b], "c": None}


def mk_op(spec, rng):
    """the operation of a spec; wrappers carry, now and then, ONE noise model for the whole wrapper (or one per gate) -
    unwrapping then creates an extra carrier operation for it on the wrapper's register"""
    if spec["k"] == "OneQubitGateWrapper" and rng.random() < 0.5:
        import graphiq.noise.noise_models as nm
        r = rng.random()
        if r < 0.4:
            noise = nm.DepolarizingNoise(0.1)
        elif r < 0.7:
            noise = nm.PauliError("X")
        elif r < 0.85:
            noise = nm.DepolarizingNoise(0.1)
            noise.noise_parameters["After gate"] = False
        else:
            noise = [nm.NoNoise() for _ in spec["w"]]
        return cz.build_op(spec, noise=noise)
    return cz.build_op(spec)


def quantum_edges(circuit):
    return [e for e in circuit.dag.edges(keys=True) if circuit.dag.edges[e]["reg_type"] in ("e", "p")]


def sample_incompat(rng, circuit, k=2):
    es = quantum_edges(circuit)
    return rng.sample(es, min(k, len(es)))


def history(tid, rng, circuit, steps, meta):
    from graphiq.circuit import ops as gops
    init = cz.dag_obs(circuit, sample_incompat(rng, circuit))
    events = []
    twin, twin_ref = None, None
    for _ in range(steps):
        # now and then a copy of the circuit is set aside; after later edits on the original (register-adding ones
        # included) the copy is looked at again
        if twin is None and rng.random() < 0.1:
            twin = circuit.copy()
            twin_ref = cz.dag_obs(twin, [])
        elif twin is not None and rng.random() < 0.25:
            try:
                events.append({"ev": "twin", "obs": cz.dag_obs(circuit, []), "twin_now": cz.dag_obs(twin, []),
                               "twin_ref": twin_ref})
            except Exception as ex:
                events.append({"ev": "twin", "obs": pj.err_obs(ex), "after": cz.dag_obs(circuit, []), "twin_now": {}, "twin_ref": {}})
                break
        dag = circuit.dag
        op_nodes = [n for n in dag.nodes if not isinstance(dag.nodes[n]["op"], gops.InputOutputOperationBase)]
        regs_q = [["e", i] for i in range(circuit.n_emitters)] + [["p", i] for i in range(circuit.n_photons)]
        n_c = circuit.n_classical
        r = rng.random()
        if len(op_nodes) > 14:
            r = 0.55 + rng.random() * 0.15         # shrink
        e = None
        try:
            if r < 0.25 and regs_q:
                spec = rand_op_spec(rng, regs_q, n_c)
                if rng.random() < 0.1:             # add on the next new register (contiguous)
                    t = rng.choice(["e", "p"])
                    cnt = circuit.n_emitters if t == "e" else circuit.n_photons
                    if cnt < 4:
                        spec = {"k": rng.choice(ONEQ), "r": [[t, cnt]], "c": None}
                op = mk_op(spec, rng)
                e = {"ev": "add", "op": cz.op_content(op)}
                circuit.add(op)
            elif r < 0.29:
                # illegal: non-contiguous register -> must raise and change nothing
                t = rng.choice(["e", "p"])
                cnt = circuit.n_emitters if t == "e" else circuit.n_photons
                op = cz.build_op({"k": "Hadamard", "r": [[t, cnt + 1 + rng.randrange(2)]], "c": None})
                e = {"ev": "add", "op": cz.op_content(op)}
                circuit.add(op)
            elif r < 0.55 and regs_q:
                es = quantum_edges(circuit)
                e1 = rng.choice(es)
                if rng.random() < 0.5 or len(regs_q) < 2:
                    d = dag.edges[e1]
                    spec = rand_op_spec(rng, [[d["reg_type"], d["reg"]]], 0)
                    spec["r"] = [[d["reg_type"], d["reg"]]]
                    if len(spec["r"]) != 1 or spec["k"] in cz.TWOQ + cz.CCTRL:
                        spec = {"k": rng.choice(ONEQ), "r": [[d["reg_type"], d["reg"]]], "c": None}
                    edges = [e1]
                else:
                    inc = circuit.find_incompatible_edges(e1)
                    d1 = dag.edges[e1]
                    cands = [x for x in es if x not in inc and
                             (dag.edges[x]["reg_type"], dag.edges[x]["reg"]) != (d1["reg_type"], d1["reg"])]
                    if not cands:
                        continue
                    e2 = rng.choice(cands)
                    d2 = dag.edges[e2]
                    k = rng.choice(cz.TWOQ + (["MeasurementCNOTandReset"] if n_c else []))
                    spec = {"k": k, "r": [[d1["reg_type"], d1["reg"]], [d2["reg_type"], d2["reg"]]],
                            "c": rng.randrange(n_c) if k == "MeasurementCNOTandReset" else None}
                    # the edge list in either order: the operation knows its registers, the list is "the edges relevant
                    # for this operation"
                    edges = [e1, e2] if rng.random() < 0.5 else [e2, e1]
                op = mk_op(spec, rng)
                e = {"ev": "insert_at", "op": cz.op_content(op),
                     "edges": [[cz._nid(x[0]), cz._nid(x[1]), str(x[2])] for x in edges]}
                circuit.insert_at(op, edges)
            elif r < 0.70 and op_nodes:
                n = rng.choice(op_nodes)
                e = {"ev": "remove", "id": cz._nid(n)}
                circuit.remove_op(n)
            elif r < 0.80 and op_nodes:
                n = rng.choice(op_nodes)
                old = dag.nodes[n]["op"]
                kind = type(old).__name__
                regs = [[t, i] for i, t in zip(old.q_registers, old.q_registers_type)]
                if len(regs) == 1 and kind != "MeasurementZ":
                    spec = rand_op_spec(rng, regs, 0)
                    spec["r"] = regs
                elif kind in cz.TWOQ:
                    spec = {"k": rng.choice(cz.TWOQ), "r": regs, "c": None}
                elif kind in cz.CCTRL:
                    spec = {"k": rng.choice(cz.CCTRL), "r": regs, "c": old.c_registers[0]}
                else:
                    spec = {"k": "MeasurementZ", "r": regs, "c": old.c_registers[0]}
                op = mk_op(spec, rng)
                if rng.random() < 0.3:
                    op.add_labels("Fixed")
                e = {"ev": "replace", "id": cz._nid(n), "op": cz.op_content(op)}
                circuit.replace_op(n, op)
            elif r < 0.85:
                e = {"ev": "unwrap"}
                circuit.unwrap_nodes()
            elif r < 0.90:
                e = {"ev": "group"}
                circuit.group_one_qubit_gates()
            elif r < 0.94:
                e = {"ev": "rm_identity"}
                circuit.remove_identity()
            elif r < 0.97:
                t = rng.choice(["e", "p", "c"])
                if len(circuit.register[t]) >= 4:
                    continue
                e = {"ev": "add_reg", "rt": t}
                {"e": circuit.add_emitter_register, "p": circuit.add_photonic_register,
                 "c": circuit.add_classical_register}[t]()
            else:
                e = {"ev": "query"}
                circuit.sequence(unwrapped=True)
                _ = circuit.depth, circuit.register_depth
                circuit.validate()
                if quantum_edges(circuit):
                    circuit.find_incompatible_edges(rng.choice(quantum_edges(circuit)))
            e["obs"] = cz.dag_obs(circuit, sample_incompat(rng, circuit))
        except Exception as ex:
            if e is None:
                raise
            e["obs"] = pj.err_obs(ex)
            e["after"] = cz.dag_obs(circuit, [])
        events.append(e)
        if e["obs"]["err"] and not (e["ev"] == "add"):
            break
    return {"tid": tid, "meta": meta, "init": init, "events": events}


MC_CFG = """CONSTANTS
  Regs = {{"e0", "e1", "p0"}}
  MaxOps = {maxops}
  Depth = {depth}
SPECIFICATION Spec
INVARIANT AcyclicInv
INVARIANT WiresConsistent
CONSTRAINT Bound
"""


def starting_circuits(ctx):
    from graphiq.circuit.circuit_dag import CircuitDAG
    import graphiq.benchmarks.circuits as bc
    from drivers import c02
    import networkx as nx
    rng = ctx.rng
    out = []
    for _ in range(6 if ctx.quick else 60):
        out.append((CircuitDAG(n_emitter=rng.randint(0, 3), n_photon=rng.randint(0, 3), n_classical=rng.randint(0, 2)),
                    "empty"))
    for f in (bc.ghz3_state_circuit, bc.linear_cluster_4qubit_circuit, bc.ghz4_state_circuit,
              bc.linear_cluster_3qubit_circuit):
        out.append((f()[0], f.__name__))
    for g in (nx.cycle_graph(4), nx.path_graph(4), nx.star_graph(3), nx.complete_graph(4)):
        rec, circuit = c02.solve(g, "g", "stabilizer")
        if circuit is not None:
            out.append((circuit, "solver"))
    return out


def run(ctx):
    ctx.mc("MC_CircuitDag", MC_CFG.format(maxops=3 if ctx.quick else 4, depth=4 if ctx.quick else 6), tag="3regs", coverage=True)
    rng = ctx.rng
    traces, tid = [], 0
    steps = 40 if ctx.quick else 300
    for circuit, origin in starting_circuits(ctx):
        for rep in range(1 if ctx.quick else 3):
            tid += 1
            c = circuit.copy()
            if c.n_emitters + c.n_photons == 0:
                c.add_emitter_register()
            traces.append(history(tid, rng, c, steps, {"origin": origin}))
    ctx.judge("Trace_CircuitDag", traces, label="J: random edit histories on the real CircuitDAG", xmx="6g")
    ctx.assumptions.append("unwrap / group / remove_identity are held to the structural invariants here; their effect on the "
                           "compiled state is C13")
