"""C15 - circuits reported equal are equivalent; de-duplication keeps every distinct one.

J : pairs of circuits built from random base circuits by NEAR-MISS edits (swap control/target, move an operation
    across a neighbour, wrap / unwrap, insert identity, rename registers, change the classical register, change one
    gate) and random pairs; every comparison method (direct, is_isomorphic, GED on small circuits), both argument
    orders; remove_redundant_circuits and CircuitStorage on lists.  The spec computes each circuit's semantics (set of
    final states over all measurement-outcome branches) and TLC checks SoundEq (exact / up to renaming of same-type
    registers), Symmetric, ReflexiveOnCopy, WrapInsensitive, IdentityInsensitive, DedupComplete.
"""
from __future__ import annotations

import copy
import warnings

from engine import circuits as cz


def circ_rec(circuit):
    c, nodes = cz.project_circuit(circuit)
    c["order"] = cz.sequence_order(circuit, nodes)
    return c


def near_misses(rng, prog, n_e, n_p, n_c):
    """-> list of (tag, program, expect_equal_for_unwrapping_methods)"""
    out = [("copy", copy.deepcopy(prog), True)]
    wr = cz.library_wrappers()
    # wrap single-qubit gates into wrappers / unwrap
    p = []
    for s in prog:
        if s["k"] in cz.ONEQ and rng.random() < 0.7:
            p.append({"k": "OneQubitGateWrapper", "r": s["r"], "c": None, "w": [s["k"]]})
        elif s["k"] == "OneQubitGateWrapper":
            for g in s["w"][::-1]:
                p.append({"k": g, "r": s["r"], "c": None})
        else:
            p.append(copy.deepcopy(s))
    out.append(("rewrapped", p, True))
    # identities inserted
    p = []
    for s in prog:
        p.append(copy.deepcopy(s))
        if rng.random() < 0.4:
            p.append({"k": "Identity", "r": [s["r"][0]], "c": None})
    out.append(("identities", p, True))
    if prog:
        i = rng.randrange(len(prog))
        # swap control and target
        two = [k for k, s in enumerate(prog) if len(s["r"]) == 2]
        if two:
            k = rng.choice(two)
            p = copy.deepcopy(prog)
            p[k]["r"] = p[k]["r"][::-1]
            out.append(("swap-control-target", p, False))
        # swap two neighbouring operations
        if len(prog) >= 2:
            k = rng.randrange(len(prog) - 1)
            p = copy.deepcopy(prog)
            p[k], p[k + 1] = p[k + 1], p[k]
            out.append(("swap-neighbours", p, False))
        # change one gate
        p = copy.deepcopy(prog)
        if p[i]["k"] in cz.ONEQ:
            p[i]["k"] = rng.choice([g for g in cz.ONEQ if g != p[i]["k"]])
            out.append(("change-gate", p, False))
        elif p[i]["k"] in cz.TWOQ:
            p[i]["k"] = "CZ" if p[i]["k"] == "CNOT" else "CNOT"
            out.append(("change-gate", p, False))
        # drop one operation
        p = copy.deepcopy(prog)
        del p[i]
        out.append(("drop-op", p, False))
        # a gate replaced by its closest relative (Phase <-> PhaseDagger, SigmaX <-> SigmaY, plain or inside a wrapper)
        REL = {"Phase": "PhaseDagger", "PhaseDagger": "Phase", "SigmaX": "SigmaY", "SigmaY": "SigmaX", "SigmaZ": "Identity"}
        p = copy.deepcopy(prog)
        done = False
        for s_ in p:
            if s_["k"] in REL and not done:
                s_["k"] = REL[s_["k"]]
                done = True
            elif s_["k"] == "OneQubitGateWrapper" and not done and any(g in REL for g in s_["w"]):
                j = next(k for k, g in enumerate(s_["w"]) if g in REL)
                s_["w"] = list(s_["w"])
                s_["w"][j] = REL[s_["w"][j]]
                done = True
        if done:
            out.append(("related-gate", p, False))
    # rename registers of the same type (a cyclic shift of the emitters / photons)
    def ren(r):
        t, j = r
        return [t, (j + 1) % (n_e if t == "e" else n_p)]
    p = copy.deepcopy(prog)
    for s in p:
        s["r"] = [ren(r) for r in s["r"]]
    out.append(("renamed", p, False))
    # different classical register
    if n_c >= 2:
        p = copy.deepcopy(prog)
        for s in p:
            if s["c"] is not None:
                s["c"] = (s["c"] + 1) % n_c
        out.append(("other-creg", p, False))
    return out


def call(f):
    try:
        with warnings.catch_warnings():
            warnings.simplefilter("ignore")
            return {"err": "", "v": bool(f())}
    except Exception as ex:
        return {"err": type(ex).__name__, "v": False}


VIA_REPLACE = [False]


def build(n_e, n_p, n_c, prog):
    """the circuit of a program; in 'via replace' families every one-qubit gate is first added as an Identity
    placeholder and then put in with replace_op (the circuit is the same, its edit history is not)."""
    try:
        if not VIA_REPLACE[0]:
            return cz.build_circuit(n_e, n_p, n_c, prog)
        from graphiq.circuit.circuit_dag import CircuitDAG
        c = CircuitDAG(n_emitter=n_e, n_photon=n_p, n_classical=n_c)
        for spec in prog:
            if spec["k"] in cz.ONEQ and spec["k"] != "Identity":
                before = set(c.dag.nodes)
                c.add(cz.build_op({"k": "Identity", "r": spec["r"], "c": None}))
                node = next(iter(set(c.dag.nodes) - before))
                c.replace_op(node, cz.build_op(spec))
            else:
                c.add(cz.build_op(spec))
        return c
    except Exception:
        return None


GED_BUDGET = [0]


def trace_for(tid, rng, quick):
    from graphiq.utils.circuit_comparison import remove_redundant_circuits, CircuitStorage, check_redundant_circuit
    VIA_REPLACE[0] = rng.random() < 0.25
    n_e, n_p = rng.choice([(1, 1), (2, 1), (1, 2), (2, 2)])
    n_c = rng.choice([1, 2])
    length = rng.choice([1, 2, 2, 3, 4, 5, 6, 7])
    prog = cz.random_program(rng, n_e, n_p, n_c, length, wrappers=cz.library_wrappers(), p_measure=0.2)
    if rng.random() < 0.35 and n_e + n_p >= 2:
        # two consecutive two-qubit operations on the same pair of registers (their nodes are joined by two edges)
        regs = [["e", i] for i in range(n_e)] + [["p", i] for i in range(n_p)]
        a, b = rng.sample(regs, 2)
        prog = prog + [{"k": rng.choice(cz.TWOQ), "r": [a, b], "c": None},
                       {"k": rng.choice(cz.TWOQ + ["ClassicalCNOT", "ClassicalCZ"]), "r": [a, b], "c": None}]
        if prog[-1]["k"].startswith("Classical"):
            prog[-1]["c"] = rng.randrange(n_c)
    variants = near_misses(rng, prog, n_e, n_p, n_c)
    if len(prog) >= 2 and len(prog[-1]["r"]) == 2 and sorted(map(tuple, prog[-1]["r"])) == sorted(map(tuple, prog[-2]["r"])):
        p2 = copy.deepcopy(prog)
        p2[-1]["r"] = p2[-1]["r"][::-1]
        variants.append(("swap-second-of-pair", p2, False))
    other = cz.random_program(rng, n_e, n_p, n_c, rng.randint(2, 7), p_measure=0.2)
    variants.append(("random-other", other, False))
    circuits, tags = [], []
    base = build(n_e, n_p, n_c, prog)
    circuits.append(base)
    tags.append("base")
    for tag, p, _ in variants:
        c = build(n_e, n_p, n_c, p)
        if c is not None and c.register == base.register:
            circuits.append(c)
            tags.append(tag)
    recs = [circ_rec(c) for c in circuits]
    events = []
    expect = {"copy": "ReflexiveOnCopy", "rewrapped": "WrapInsensitive", "identities": "IdentityInsensitive"}
    methods = ["direct", "is_isomorphic"]
    if len(recs[0]["ops"]) <= 2 and n_e + n_p <= 2 and GED_BUDGET[0] > 0:
        GED_BUDGET[0] -= 1
        methods.append("GED_adaptive")        # graph edit distance: exponential, tiny circuits only
    for j in range(1, len(circuits)):
        for m in methods:
            a, b = circuits[0].copy(), circuits[j].copy()
            out = call(lambda: a.compare(b, method=m))
            a2, b2 = circuits[0].copy(), circuits[j].copy()
            rev = call(lambda: b2.compare(a2, method=m))
            why = expect.get(tags[j], "")
            # wrap / identity insensitivity is promised by the methods that normalise first; a copy must always be equal
            exp = bool(why) and (m != "is_isomorphic" or tags[j] == "copy")
            events.append({"fn": "compare", "method": m, "a": 1, "b": j + 1, "out": out, "rev": rev,
                           "expect_equal": exp, "why": why or "none", "tag": tags[j]})
        a, b = circuits[0].copy(), circuits[j].copy()
        out = call(lambda: check_redundant_circuit(a, b))
        a2, b2 = circuits[0].copy(), circuits[j].copy()
        rev = call(lambda: check_redundant_circuit(b2, a2))
        events.append({"fn": "compare", "method": "check_redundant_circuit", "a": 1, "b": j + 1, "out": out, "rev": rev,
                       "expect_equal": tags[j] in expect, "why": expect.get(tags[j], "none"), "tag": tags[j]})
    # de-duplication of the whole list (shuffled)
    idx = list(range(len(circuits)))
    rng.shuffle(idx)
    lst = [circuits[i].copy() for i in idx]
    try:
        kept = remove_redundant_circuits(lst)
        kept_idx = [idx[next(k for k, c in enumerate(lst) if c is kc)] + 1 for kc in kept]
        out = {"err": "", "kept": kept_idx}
    except Exception as ex:
        out = {"err": type(ex).__name__, "kept": []}
    events.append({"fn": "dedup", "method": "remove_redundant", "list": [i + 1 for i in idx], "out": out})
    try:
        st = CircuitStorage()
        kept_idx = []
        for i in idx:
            if st.add_new_circuit(circuits[i].copy()):
                kept_idx.append(i + 1)
        out = {"err": "", "kept": kept_idx}
    except Exception as ex:
        out = {"err": type(ex).__name__, "kept": []}
    events.append({"fn": "dedup", "method": "storage", "list": [i + 1 for i in idx], "out": out})
    return {"tid": tid, "meta": {"n_e": n_e, "n_p": n_p, "n_c": n_c, "program": prog, "tags": tags, "via_replace": VIA_REPLACE[0]},
            "circuits": recs, "events": events}


def far_apart_trace(tid):
    """two circuits on the same registers that are MANY edits apart (the graph-edit-distance search gives up): an empty
    circuit against fifteen gates - the methods must not answer 'equal'"""
    n_e, n_p, n_c = 1, 3, 1
    prog = [{"k": k, "r": [["p", q]], "c": None} for q in range(3) for k in ("Hadamard", "Phase", "Hadamard", "SigmaX", "Phase")]
    circuits = [build(n_e, n_p, n_c, []), build(n_e, n_p, n_c, prog)]
    events = []
    for m in ("GED_full", "GED_adaptive", "direct"):
        a, b = circuits[0].copy(), circuits[1].copy()
        out = call(lambda: a.compare(b, method=m))
        a2, b2 = circuits[0].copy(), circuits[1].copy()
        rev = call(lambda: b2.compare(a2, method=m))
        events.append({"fn": "compare", "method": m, "a": 1, "b": 2, "out": out, "rev": rev, "expect_equal": False,
                       "why": "none", "tag": "far-apart"})
    return {"tid": tid, "meta": {"n_e": n_e, "n_p": n_p, "n_c": n_c, "program": prog, "tags": ["base", "far-apart"],
                                 "via_replace": False}, "circuits": [circ_rec(c) for c in circuits], "events": events}


def run(ctx):
    GED_BUDGET[0] = 1 if ctx.quick else 25      # graph edit distance is exponential (10 s timeout per call)
    VIA_REPLACE[0] = False
    traces = [far_apart_trace(0)]
    traces += [trace_for(i + 1, ctx.rng, ctx.quick) for i in range(40 if ctx.quick else 1200)]
    ctx.judge("Trace_Compare", traces, label="J: comparison methods and de-duplication on near-miss circuit families", xmx="4g")
