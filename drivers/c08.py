"""C08 - conversions among graph, stabilizer and density-matrix forms preserve the state.

G/J : all labelled graphs n <= 4 (quick; dm legs n <= 4) / n <= 5 (thorough); all TLC-enumerated stabilizer states
    on <= 3 qubits in random generating sets for state_to_graph.  The REAL conversion functions are called; TLC judges
    G2DM / G2S (state = GraphState(G), as exact Pauli vector / group), DM2G / S2G (G recovered from |G> in ANY
    generating set), StateToGraphOK (returned gates map the input group onto GraphState(returned graph), signs
    included) and, for every ordered pair of representations, that QuantumState.convert_representation keeps |G>.
"""
from __future__ import annotations

import networkx as nx
import numpy as np

from engine import circuits as cz
from engine import project as pj
from engine import stabgen as sg
from drivers.c09 import adj_of, adj_out, graph_out


def obs_of_state(qs, n, order=None):
    """QuantumState -> (fn, out) for Trace_Graphs"""
    rt = qs.rep_type
    if rt == "g":
        gr = qs.rep_data.data
        if order is not None and list(gr.nodes()) == list(order):
            # the caller's own labelled graph came back (g -> g): read it in the library's convention, by position
            gr = nx.relabel_nodes(gr, {v: k for k, v in enumerate(order)})
        o = graph_out(gr, n)
        o["err"] = ""
        return "to_graph", o
    if rt == "s":
        o = pj.tab_obs(qs.rep_data.data)
        o["kind"] = "T"
        return "to_stab", o
    o = pj.pv_obs(qs.rep_data.data, n)
    return "to_pv", o


def guarded(fn, via, f, extra=None):
    try:
        out = f()
    except Exception as ex:
        out = {"err": type(ex).__name__, "bad": "", "n": 0, "edges": [], "vec": [], "kind": "S"}
    e = {"fn": fn, "via": via, "has_st": False, "out": out}
    if extra:
        e.update(extra)
    return e


def graph_events(g, n, rng, do_dm, nsets, gp=None):
    """g: the graph handed to the library (its node INSERTION order may differ from the label order); gp: the same
    graph relabelled by position (k-th inserted node = qubit k, the library's convention) - what the harness uses."""
    import graphiq.backends.state_rep_conversion as rc
    from graphiq.state import QuantumState
    evs = []
    gp = g if gp is None else gp
    a = adj_of(gp, n)
    if do_dm:
        evs.append(guarded("to_pv", "graph_to_density(nx)", lambda: pj.pv_obs(rc.graph_to_density(g.copy()), n)))
        evs.append(guarded("to_pv", "graph_to_density(adj)", lambda: pj.pv_obs(rc.graph_to_density(a.copy()), n)))

        def dm2g():
            rho = pj.rows_to_dm(sg.graph_generators(gp, n))
            o = adj_out(rc.density_to_graph(rho), n)
            o["err"] = ""
            return o
        evs.append(guarded("to_graph", "density_to_graph", dm2g))

    def g2s(x):
        res = rc.graph_to_stabilizer(x)
        o = pj.stab_obs(res[0][1])
        o["kind"] = "S"
        return o
    evs.append(guarded("to_stab", "graph_to_stabilizer(nx)", lambda: g2s(g.copy())))
    evs.append(guarded("to_stab", "graph_to_stabilizer(adj)", lambda: g2s(a.copy())))
    gens = sg.graph_generators(gp, n)
    for k in range(nsets):
        rows = gens if k == 0 else sg.random_regauge(rng, gens)
        st = sg.stabilizer_tableau(rows)
        so = pj.stab_obs(st)
        so["kind"] = "S"

        def s2g():
            res = rc.stabilizer_to_graph(st.copy())
            o = graph_out(res[0][1], n)
            o["err"] = ""
            return o
        evs.append(guarded("to_graph", "stabilizer_to_graph", s2g, {"has_st": True, "st": so}))
    # every ordered pair of representations
    reps = ["g", "s", "dm"] if do_dm else ["g", "s"]
    for src in reps:
        for dst in reps:
            def conv():
                qs = cz.target_state(g.copy(), src)
                qs.convert_representation(dst)
                fn, o = obs_of_state(qs, n, order=list(g.nodes()))
                conv.fn = fn
                return o
            conv.fn = {"g": "to_graph", "s": "to_stab", "dm": "to_pv"}[dst]
            e = guarded(conv.fn, f"convert_representation({src}->{dst})", conv)
            evs.append(e)
    # the graph state held as a stabilizer state in ANOTHER generating set (signed products of the textbook generators)
    if 2 <= n <= 4 and gp.number_of_edges() >= 1:
        for dst in (["dm", "g"] if do_dm else ["g"]):
            rows_ = gens
            for _k in range(20):
                rows_ = sg.random_regauge(rng, gens, steps=4 * n)
                if any(r["s"] for r in rows_):
                    break
            tab_ = pj.rows_to_tableau(sg.random_destabilizers(rng, rows_), rows_)

            def conv_signed(dst=dst, tab_=tab_):
                qs = QuantumState(tab_.copy(), rep_type="s")
                qs.convert_representation(dst)
                fn, o = obs_of_state(qs, n, order=list(range(n)))
                conv_signed.fn = fn
                return o
            conv_signed.fn = {"g": "to_graph", "dm": "to_pv"}[dst]
            extra = {"has_st": True, "st": pj.tab_obs(tab_)} if dst == "dm" else None
            evs.append(guarded(conv_signed.fn, f"convert_representation(s[signed gauge]->{dst})", conv_signed, extra))
    # chains of conversions on ONE QuantumState object (whatever the object keeps from the previous representation is in play)
    for _ in range(2):
        chain = [rng.choice(reps)]
        for _k in range(rng.randint(2, 4)):
            chain.append(rng.choice([r for r in reps if r != chain[-1]] or reps))

        def conv_chain():
            qs = cz.target_state(g.copy(), chain[0])
            for r in chain[1:]:
                qs.convert_representation(r)
            fn, o = obs_of_state(qs, n, order=list(g.nodes()))
            conv_chain.fn = fn
            return o
        conv_chain.fn = {"g": "to_graph", "s": "to_stab", "dm": "to_pv"}[chain[-1]]
        evs.append(guarded(conv_chain.fn, "convert_representation chain " + "->".join(chain), conv_chain))
    return evs


def state_events(rows, rng=None):
    import graphiq.backends.state_rep_conversion as rc
    from graphiq.backends.stabilizer.clifford_tableau import CliffordTableau
    n = len(rows)
    st = sg.stabilizer_tableau(rows)
    so = pj.stab_obs(st)
    so["kind"] = "S"
    evs = []
    for via, mk in (("state_to_graph(StabilizerTableau)", lambda: st.copy()),
                    # the Clifford tableau is assembled by the harness (destabilizers by brute force): graphiq's own
                    # StabilizerTableau -> CliffordTableau conversion is C11's subject (and has known finding C11-K2)
                    ("state_to_graph(CliffordTableau)",
                     lambda: pj.rows_to_tableau(sg.random_destabilizers(rng, rows), rows) if rng is not None
                     else CliffordTableau(st.copy()))):
        try:
            graph, tab, gates = rc.state_to_graph(mk())
            o = graph_out(graph, n)
            o["err"] = ""
            o["gates"] = sg.gate_list_obs(gates)
        except Exception as ex:
            o = {"err": type(ex).__name__, "bad": "", "n": n, "edges": [], "gates": []}
        evs.append({"fn": "state_to_graph", "via": via, "st": so, "out": o})
    return evs


def run(ctx):
    rng = ctx.rng
    traces, tid = [], 0
    for n in (1, 2, 3, 4) if ctx.quick else (1, 2, 3, 4, 5):
        for g in cz.all_graphs(n):
            tid += 1
            traces.append({"tid": tid, "meta": {"n": n, "base": cz.graph_edges1(g)}, "n": n, "base": cz.graph_edges1(g),
                           "need_orbit": False, "events": graph_events(g, n, rng, do_dm=(n <= 4), nsets=2 if ctx.quick else 4)})
    # the same graphs with a node INSERTION order that is not the label order (qubit k = k-th inserted node)
    for n in (3, 4) if ctx.quick else (3, 4, 5):
        for gi, g in enumerate(cz.all_graphs(n)):
            if g.number_of_edges() == 0 or (ctx.quick and gi % 4) or (n == 5 and gi % 8):
                continue
            order = list(range(n))
            while order == list(range(n)):
                rng.shuffle(order)
            gsh = nx.Graph()
            gsh.add_nodes_from(order)
            gsh.add_edges_from(g.edges())
            gp = nx.relabel_nodes(gsh, {v: k for k, v in enumerate(order)})
            gp2 = nx.Graph()
            gp2.add_nodes_from(range(n))
            gp2.add_edges_from(gp.edges())
            tid += 1
            traces.append({"tid": tid, "meta": {"n": n, "base": cz.graph_edges1(gp2), "insertion_order": order}, "n": n,
                           "base": cz.graph_edges1(gp2), "need_orbit": False,
                           "events": graph_events(gsh, n, rng, do_dm=(n <= 4), nsets=1, gp=gp2)})
    evs = []
    for n, nsets in ((1, 1), (2, 2), (3, 1 if ctx.quick else 6)):
        for grp in sg.enumerate_groups(ctx, n):
            for _ in range(nsets):
                evs += state_events(sg.random_basis(rng, grp), rng)
    if not ctx.quick:
        for grp in rng.sample(sg.enumerate_groups(ctx, 4), 6000):
            evs += state_events(sg.random_basis(rng, grp), rng)
    # sampled 4..6-qubit states (independent sampler): sign repairs that only matter when a product of graph
    # generators carries an intrinsic minus sign need >= 4 qubits and are rare (~0.4 % of states)
    for n, k in ((4, 1500), (5, 500), (6, 150)) if ctx.quick else ((4, 4000), (5, 4000), (6, 1500)):
        for _ in range(k):
            evs += state_events(sg.random_state_rows(rng, n), rng)
    for i in range(0, len(evs), 100):
        tid += 1
        traces.append({"tid": tid, "meta": {"kind": "state_to_graph"}, "n": 1, "base": [], "need_orbit": False,
                       "events": evs[i:i + 100]})
    ctx.judge("Trace_Graphs", traces, label="G: conversions on enumerated graphs and stabilizer states", xmx="4g")
    ctx.assumptions.append("density-matrix legs bounded to 4 qubits (4^n Pauli vector)")
