"""C03 - emitter budget is minimal: height function equals bipartite entanglement.

G : TLC-enumerated stabilizer states (n <= 3; n = 4 sampled in thorough) in several generating sets ->
    height_func_list; all labelled graphs n <= 4 (5) -> height_dict / height_max / determine_n_emitters /
    emitter_sorted; solver circuits (C02 machinery) -> emitter count = max height, each photon emitted exactly once.
Judge: Trace_StabFn (HeightOK: height[k] = k - log2 |{g in group : supp g within 1..k}|, gauge free) and
       Trace_CircuitAll (EmitterCountMinimal, EmittedOnce).
M : MC_Stab EntropyLemmas (entropy symmetric under complement; unentangled <=> entropy 0); MC_GraphCut: for every
    graph state the group-level entropy equals the GF(2) rank of the adjacency block across the cut.
"""
from __future__ import annotations

import numpy as np
import networkx as nx

from engine import circuits as cz
from engine import project as pj
from engine import stabgen as sg
from drivers import c02


def height_event(rows):
    from graphiq.backends.stabilizer.functions.height import height_func_list
    st = sg.stabilizer_tableau(rows)
    o = pj.stab_obs(st)
    o["kind"] = "S"
    try:
        from graphiq.backends.stabilizer.functions.height import height_function, height_dict, height_max
        n = st.n_qubits
        h = height_func_list(st.x_matrix.copy(), st.z_matrix.copy())
        hd = height_dict(x_matrix=st.x_matrix.copy(), z_matrix=st.z_matrix.copy())
        out = {"err": "", "h": [int(v) for v in h],
               # the same quantity through the other entry points (matrix form of height_dict / height_max, per position)
               "hf": [int(height_function(st.x_matrix.copy(), st.z_matrix.copy(), k)) for k in range(n)],
               "hd": [int(hd[k]) for k in range(n)], "hd_first": int(hd[-1]),
               "hmax": int(height_max(x_matrix=st.x_matrix.copy(), z_matrix=st.z_matrix.copy()))}
    except Exception as ex:
        out = pj.err_obs(ex)
    return o, {"fn": "height", "a": 1, "out": out}


def graph_event(g):
    from graphiq.backends.stabilizer.functions.height import height_dict, height_max
    from graphiq.backends.stabilizer.functions.rep_conversion import get_stabilizer_tableau_from_graph
    from graphiq.solvers.time_reversed_solver import TimeReversedSolver
    n = g.number_of_nodes()
    try:
        hd = height_dict(graph=g)
        h = [int(hd[k]) for k in range(n)]
        hmax = int(height_max(graph=g))
        ne = int(TimeReversedSolver.determine_n_emitters(get_stabilizer_tableau_from_graph(g)))
        out = {"err": "", "h": h, "hmax": hmax, "ne": ne}
    except Exception as ex:
        out = pj.err_obs(ex)
    return {"fn": "height_graph", "n": n, "edges": cz.graph_edges1(g), "out": out}


def sorted_event(rng, graphs):
    from graphiq.utils.relabel_module import emitter_sorted
    n = graphs[0].number_of_nodes()
    adjs = [nx.to_numpy_array(g, nodelist=range(n)).astype(int) for g in graphs]
    try:
        res = emitter_sorted(adjs)
        order, ne = [], []
        used = set()
        for adj, k in res:
            idx = next(i for i, a in enumerate(adjs) if i not in used and np.array_equal(a, adj))
            used.add(idx)
            order.append(idx + 1)
            ne.append(int(k))
        out = {"err": "", "order": order, "ne": ne}
    except Exception as ex:
        out = pj.err_obs(ex)
    return {"fn": "emitter_sorted", "n": n, "graphs": [cz.graph_edges1(g) for g in graphs], "out": out}


CUT_CFG = "CONSTANT N = {n}\nSPECIFICATION Spec\nINVARIANT CutRankLemma\n"


def run(ctx):
    rng = ctx.rng
    ctx.mc("MC_GraphCut", CUT_CFG.format(n=4), tag="N4", expect_distinct=64)
    if not ctx.quick:
        ctx.mc("MC_GraphCut", CUT_CFG.format(n=5), tag="N5", expect_distinct=1024)
    traces, tid = [], 0
    for n, nsets in ((1, 2), (2, 6), (3, 4 if ctx.quick else 30)):
        for grp in sg.enumerate_groups(ctx, n):
            bases = list(sg.all_bases(grp)) if n == 2 else [sg.random_basis(rng, grp) for _ in range(nsets)]
            for rows in bases:
                o, e = height_event(rows)
                tid += 1
                traces.append({"tid": tid, "meta": {"kind": "state", "n": n}, "states": [o], "events": [e]})
    if not ctx.quick:
        for grp in rng.sample(sg.enumerate_groups(ctx, 4), 2500):
            o, e = height_event(sg.random_basis(rng, grp))
            tid += 1
            traces.append({"tid": tid, "meta": {"kind": "state", "n": 4}, "states": [o], "events": [e]})
    evs = []
    graphs = []
    for n in (1, 2, 3, 4) if ctx.quick else (1, 2, 3, 4, 5):
        for g in cz.all_graphs(n):
            evs.append(graph_event(g))
            graphs.append(g)
    # 6..8 vertices: random graphs, and graphs chosen (by the harness, only as inputs) so that some cut block has a
    # larger rank over the reals than over GF(2) - where integer / float linear algebra and GF(2) algebra part ways
    def cut_ranks_differ(g, n):
        a = nx.to_numpy_array(g, nodelist=range(n)).astype(int)
        for k in range(1, n):
            blk = a[:k, k:]
            if np.linalg.matrix_rank(blk) != sg.gf2_rank([list(map(int, r)) for r in blk]):
                return True
        return False
    for n in (6, 7, 8):
        want = 8 if ctx.quick else 120
        adv = rnd = 0
        tries = 0
        while (adv < want or rnd < want) and tries < 200000:
            tries += 1
            g = nx.gnp_random_graph(n, rng.choice([0.4, 0.5, 0.6, 0.7]), seed=rng.randrange(2 ** 31))
            if cut_ranks_differ(g, n):
                if adv < want:
                    adv += 1
                    evs.append(graph_event(g))
            elif rnd < want:
                rnd += 1
                evs.append(graph_event(g))
    # the SAME graph object queried, edited in place (edges added / removed) and queried again: every query is judged
    # against the edges the object has at that moment
    for _ in range(12 if ctx.quick else 300):
        n = rng.choice([4, 5, 6])
        g = nx.path_graph(n) if rng.random() < 0.5 else nx.gnp_random_graph(n, 0.4, seed=rng.randrange(2 ** 31))
        for _k in range(rng.randint(3, 6)):
            evs.append(graph_event(g))
            for _j in range(rng.randint(1, 3)):
                a, b = rng.sample(range(n), 2)
                if g.has_edge(a, b):
                    g.remove_edge(a, b)
                else:
                    g.add_edge(a, b)
        evs.append(graph_event(g))
    # emitter_sorted on 6-vertex graphs, most of them with a cut block whose real and GF(2) rank differ
    adv6, rnd6 = [], []
    tries = 0
    while (len(adv6) < 12 or len(rnd6) < 6) and tries < 100000:
        tries += 1
        g6 = nx.gnp_random_graph(6, rng.choice([0.4, 0.5, 0.6, 0.7]), seed=rng.randrange(2 ** 31))
        (adv6 if cut_ranks_differ(g6, 6) else rnd6).append(g6) if (len(adv6) < 12 or not cut_ranks_differ(g6, 6)) else None
    pool6 = adv6[:12] + rnd6[:6]
    for _ in range(4 if ctx.quick else 40):
        evs.append(sorted_event(rng, rng.sample(pool6, 5)))
    ctx.extra["big_graph_height_events"] = sum(1 for e in evs if e["n"] >= 6)
    for n in (3, 4):
        pool = [g for g in graphs if g.number_of_nodes() == n]
        for _ in range(10 if ctx.quick else 60):
            evs.append(sorted_event(rng, rng.sample(pool, 5)))
    for i in range(0, len(evs), 64):
        tid += 1
        traces.append({"tid": tid, "meta": {"kind": "graph"}, "states": [], "events": evs[i:i + 64]})
    ctx.judge("Trace_StabFn", traces, label="G: height function on enumerated states and graphs")
    # solver circuits: emitter count and single emission
    recs = []
    pool = [g for g in graphs if all(d > 0 for _, d in g.degree())]
    if not ctx.quick:
        pool += [nx.gnp_random_graph(6, 0.5, seed=rng.randrange(2 ** 31)) for _ in range(200)]
        pool = [g for g in pool if all(d > 0 for _, d in g.degree())]
    for g in pool:
        rec, _ = c02.solve(g, "g", "stabilizer", setting=1)
        tid += 1
        rec.update({"tid": tid, "events": [], "meta": {"n": g.number_of_nodes(), "edges": rec["target"]["edges"]}})
        recs.append(rec)
    ctx.judge("Trace_CircuitAll", recs, label="M: solver circuits - emitter count and single emission", mode="forall")
