"""X07 (extension) - photon-loss accounting (graphiq.utils.photon_loss.photon_survival_rate): MC_PhotonLoss enumerates every
circuit of <= 2 (3) operations over two photons and an emitter with a loss exponent on every qubit of every operation
(InRange, Monotone, Local); every generated circuit is built as a real CircuitDAG (operation classes and the way the
noise is attached chosen at random: plain gates, wrappers, controlled pairs, classically controlled pairs, measure-and-
reset) and photon_survival_rate's answer is compared with the spec's product by Trace_PhotonLoss (SurvivalOK); longer
random circuits (wrappers with per-gate noise lists, other noise models that lose nothing) in the same way, projected
from the real operation objects.
"""
from __future__ import annotations

import json
import math
from fractions import Fraction

CFG = """CONSTANTS
  MaxLen = {k}
  MaxK = 2
SPECIFICATION Spec
INVARIANT InRange
INVARIANT Local
INVARIANT Dump
PROPERTY Monotone
CHECK_DEADLOCK FALSE
"""


def loss_noise(k, rng):
    import graphiq.noise.noise_models as nm
    if k > 0:
        return nm.PhotonLoss(2.0 ** -k)
    r = rng.random()
    return nm.NoNoise() if r < 0.7 else (nm.DepolarizingNoise(0.125) if r < 0.85 else nm.PauliError("Z"))


def build(ops_spec, n_p, rng):
    """real circuit for a spec operation list (wires 'pK' / 'e0')"""
    from graphiq.circuit import ops
    from graphiq.circuit.circuit_dag import CircuitDAG
    c = CircuitDAG(n_emitter=1, n_photon=n_p, n_classical=1)
    for o in ops_spec:
        regs = [(w[0], int(w[1:])) for w in o["q"]]
        noise = [loss_noise(k, rng) for k in o["loss"]]
        if len(regs) == 1:
            t, r = regs[0]
            how = rng.random()
            if how < 0.6:
                c.add(getattr(ops, rng.choice(["Hadamard", "Phase", "SigmaX", "Identity"]))(register=r, reg_type=t, noise=noise[0]))
            else:
                c.add(ops.OneQubitGateWrapper([ops.Hadamard, ops.Phase][: rng.randint(1, 2)], register=r, reg_type=t, noise=noise[0]))
        else:
            (ta, ra), (tb, rb) = regs
            kw = dict(control=ra, control_type=ta, target=rb, target_type=tb, noise=noise)
            kinds = ["CNOT", "CZ"]
            if ta == "e" and tb == "p":
                kinds += ["MeasurementCNOTandReset"]
            if ta == "p":
                kinds += ["ClassicalCNOT", "ClassicalCZ"]
            kind = rng.choice(kinds)
            if kind in ("CNOT", "CZ"):
                c.add(getattr(ops, kind)(**kw))
            else:
                c.add(getattr(ops, kind)(c_register=0, **kw))
    return c


def loss_exp(noise):
    if type(noise).__name__ != "PhotonLoss":
        return 0
    k = -math.log2(float(noise.noise_parameters["loss rate"]))
    return int(round(k)) if abs(k - round(k)) < 1e-12 and k >= 1 else -1


def project(circuit):
    """spec operation list from the REAL operation objects (wrappers with per-gate noise lists count once per gate)"""
    from graphiq.circuit import ops as gops
    out = []
    for op in circuit.sequence():
        if isinstance(op, gops.InputOutputOperationBase):
            continue
        wires = [f"{t}{r}" for r, t in zip(op.q_registers, op.q_registers_type)]
        if isinstance(op, gops.OneQubitGateWrapper) and isinstance(op.noise, list):
            for nz in op.noise:
                out.append({"q": wires, "loss": [loss_exp(nz)]})
        elif isinstance(op.noise, list):
            out.append({"q": wires, "loss": [loss_exp(nz) for nz in op.noise]})
        else:
            out.append({"q": wires, "loss": [loss_exp(op.noise)] * len(wires)})
    return out


def rat(v):
    f = Fraction(float(v))
    if f.denominator > 2 ** 28 or f.numerator > 2 ** 28:
        return [0, 1]
    return [f.numerator, f.denominator]


def event(circuit, kind):
    from graphiq.utils.photon_loss import photon_survival_rate
    e = {"kind": kind, "np": circuit.n_photons, "ops": project(circuit), "err": "", "out": []}
    try:
        e["out"] = [rat(v) for v in photon_survival_rate(circuit)]
    except Exception as ex:
        e["err"] = type(ex).__name__
    return e


def kind_of(ops_spec):
    pc = any(len(o["q"]) == 2 and o["q"][0][0] == "p" and o["loss"][0] != o["loss"][1] for o in ops_spec)
    return "photon-is-control" if pc else "plain"


def run(ctx):
    rng = ctx.rng
    r = ctx.mc("MC_PhotonLoss", CFG.format(k=2 if ctx.quick else 3), tag="hist", workers=1)
    hists = [json.loads(p[1]) for p in r.prints if p[0] == "HIST"]
    ctx.extra["tlc_circuits_generated"] = len(hists)
    cap = 3000 if ctx.quick else 40000
    if len(hists) > cap:
        hists = rng.sample(hists, cap)
    events = []
    for h in hists:
        c = build(h["ops"], 2, rng)
        e = event(c, kind_of(h["ops"]))
        # the projection (from the real operation objects) must carry the losses the generated circuit asked for, wire by
        # wire (operations on different wires may come out of sequence() in another order; a noise-free wrapper stores one
        # NoNoise per gate)
        def losses(ops_):
            return sorted((w, k) for o in ops_ for w, k in zip(o["q"], o["loss"]) if k)
        assert losses(e["ops"]) == losses(h["ops"]), "projection differs from the generated circuit"
        events.append(e)
    # longer random circuits on up to 4 photons; wrappers with per-gate noise lists
    from graphiq.circuit import ops
    for _ in range(300 if ctx.quick else 6000):
        n_p = rng.randint(1, 4)
        spec = []
        for _k in range(rng.randint(2, 7)):
            if rng.random() < 0.5 or n_p < 2:
                q = [rng.choice([f"p{i}" for i in range(n_p)])]
            else:
                a, b = rng.sample([f"p{i}" for i in range(n_p)] + ["e0"], 2)
                if a[0] == "e" and b[0] == "e":
                    continue
                q = [a, b]
            spec.append({"q": q, "loss": [rng.choice([0, 0, 1, 2, 3]) for _ in q]})
        spec = [o for o in spec if any(w[0] == "p" for w in o["q"])]
        c = build(spec, n_p, rng)
        if rng.random() < 0.4:
            r_ = rng.randrange(n_p)
            c.add(ops.OneQubitGateWrapper([ops.Hadamard, ops.Phase, ops.SigmaX], register=r_, reg_type="p",
                                          noise=[loss_noise(rng.choice([0, 1, 2]), rng) for _ in range(3)]))
        events.append(event(c, kind_of(project(c))))
    traces = [{"tid": i + 1, "meta": {"kind": "photon-loss"}, "events": events[i * 100:(i + 1) * 100]}
              for i in range((len(events) + 99) // 100)]
    # one trace per event kind would hide nothing: every event is judged on its own; a rejected trace stops at its first
    # failing event, so events are regrouped by kind to keep different causes apart
    by_kind = {}
    for e in events:
        by_kind.setdefault(e["kind"], []).append(e)
    traces, tid = [], 0
    for kind, evs in sorted(by_kind.items()):
        for i in range(0, len(evs), 50):
            tid += 1
            traces.append({"tid": tid, "meta": {"kind": kind}, "events": evs[i:i + 50]})
    ctx.judge("Trace_PhotonLoss", traces, label="G/J: TLC-generated and random circuits through photon_survival_rate")
    ctx.assumptions.append("extension check: not one of the listed properties; loss rates are 1/2, 1/4, 1/8 (exact floats)")
