"""X06 (extension) - the Monte-Carlo noise map (graphiq.noise.monte_carlo_noise.McNoiseMap) as a state machine:
MC_NoiseMap explores every call history of length <= 2 (3) of add_noise_tuple / add_gate_noise over two register kinds (and
an unknown one), two gates, probabilities in eighths (1.5 and non-float values included): SumBoundInv, and the action
property that a refused add_noise_tuple changes nothing.  Every generated history is replayed into the real class; after
every call the WHOLE map, and the answers of total_noise_prob / get_gate_noise for the gate just touched, are recorded
and validated by Trace_NoiseMap (ErrorOK, SumBoundOK, MapOK, ReturnOK); longer random histories in the same way.
"""
from __future__ import annotations

import json

CFG = """CONSTANTS
  MaxLen = {k}
  Gates = {{"Hadamard", "CNOT"}}
  Probs = {probs}
SPECIFICATION Spec
INVARIANT SumBoundInv
INVARIANT SamplingPossible
INVARIANT Dump
PROPERTY FailedCallsChangeNothing
CHECK_DEADLOCK FALSE
"""
GATES = ["Hadamard", "CNOT"]
KINDS = ["e", "p", "ee", "ep"]


def noise_of(nid):
    import graphiq.noise.noise_models as nm
    return nm.NoNoise() if nid == "NoNoise" else nm.PauliError(nid)


def nid_of(noise):
    if type(noise).__name__ == "NoNoise":
        return "NoNoise"
    return str(noise.noise_parameters.get("Pauli error", type(noise).__name__))


def eighths(p):
    v = float(p) * 8
    return int(round(v)) if abs(v - round(v)) < 1e-9 else -1


def project(m):
    out = {}
    mp = m.mapping
    for k in KINDS:
        out[k] = {}
        for g in GATES:
            if g in mp.get(k, {}):
                out[k][g] = {"has": True, "l": [[nid_of(n), eighths(p)] for n, p in mp[k][g]]}
            else:
                out[k][g] = {"has": False, "l": []}
    return out


def mk_tuple(t):
    nid, p8, isfloat = t
    return (noise_of(nid), (p8 / 8.0) if isfloat else int(p8 // 8))


def replay(calls, m=None):
    from graphiq.noise.monte_carlo_noise import McNoiseMap
    m = McNoiseMap() if m is None else m
    events = []
    for c in calls:
        ts = [[t["id"], t["p"] if t["f"] else 8 * (t["p"] // 8), bool(t["f"])] for t in c["ts"]] if c["ts"] and isinstance(c["ts"][0], dict) else c["ts"]
        e = {"a": c["a"], "k": c["k"], "g": c["g"], "ts": ts, "err": "", "ret": 0}
        try:
            if c["a"] == "add_tuple":
                m.add_noise_tuple(c["k"], c["g"], mk_tuple(ts[0]))
            elif c["a"] == "add_gate":
                m.add_gate_noise(c["k"], c["g"], [mk_tuple(t) for t in ts])
            elif c["a"] == "total":
                e["ret"] = eighths(m.total_noise_prob(c["k"], c["g"]))
            else:
                e["ret"] = [[nid_of(n), eighths(p)] for n, p in m.get_gate_noise(c["k"], c["g"])]
        except Exception as ex:
            e["err"] = type(ex).__name__
            if c["a"] == "get":
                e["ret"] = []
        e["obs"] = project(m)
        events.append(e)
    return events


def with_queries(calls):
    """after every mutating call the two queries on the gate just touched"""
    out = []
    for c in calls:
        out.append(c)
        if c["a"] in ("add_tuple", "add_gate"):
            out.append({"a": "total", "k": c["k"], "g": c["g"], "ts": []})
            out.append({"a": "get", "k": c["k"], "g": c["g"], "ts": []})
    return out


def run(ctx):
    rng = ctx.rng
    r = ctx.mc("MC_NoiseMap", CFG.format(k=2 if ctx.quick else 3, probs="{2, 4, 6, 8, 12}"), tag="hist", workers=1)
    hists = [json.loads(p[1]) for p in r.prints if p[0] == "HIST"]
    ctx.extra["tlc_histories_generated"] = len(hists)
    cap = 6000 if ctx.quick else 60000
    if len(hists) > cap:
        hists = rng.sample(hists, cap)
    traces = []
    for i, h in enumerate(hists):
        traces.append({"tid": i + 1, "meta": {"kind": "tlc-history"}, "gates": GATES, "events": replay(with_queries(h["calls"]))})
    for j in range(200 if ctx.quick else 5000):
        calls = []
        for _ in range(rng.randint(4, 14)):
            a = rng.choice(["add_tuple", "add_tuple", "add_gate", "total", "get"])
            k = rng.choice(KINDS + ["pp"]) if rng.random() < 0.15 else rng.choice(KINDS)
            ts = []
            if a == "add_tuple":
                ts = [[rng.choice(["X", "Y", "Z"]), rng.choice([0, 1, 2, 3, 4, 5, 8, 8, 12]), rng.random() < 0.9]]
            elif a == "add_gate":
                ts = [[rng.choice(["X", "Y", "Z"]), rng.choice([1, 2, 3, 4, 5, 6]), True] for _ in range(rng.randint(0, 3))]
            ts = [[t[0], t[1] if t[2] else 8 * (t[1] // 8), t[2]] for t in ts]
            calls.append({"a": a, "k": k, "g": rng.choice(GATES), "ts": ts})
        traces.append({"tid": len(hists) + j + 1, "meta": {"kind": "random"}, "gates": GATES, "events": replay(with_queries(calls))})
    ctx.judge("Trace_NoiseMap", traces, label="G/J: TLC-generated and random call histories on the real noise map")
    ctx.assumptions.append("extension check: not one of the listed properties; probabilities are multiples of 1/8 (exact floats)")
