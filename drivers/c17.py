"""C17 - density-matrix fidelity, trace distance and partial trace are computed correctly.

Domain: mixtures of stabilizer states on n <= 3 qubits with rational weights whose square roots are rational -
pure states, mixtures within one stabilizer eigenbasis (commuting) and across bases (non-commuting; Y-type members make
the matrices genuinely complex) - plus generic random density matrices for the relational laws.
G : the pure members are TLC-enumerated stabilizer states (MC_Stab).
J : the REAL fidelity / trace_distance / partial_trace / Infidelity.evaluate; Trace_DM.tla computes the exact value
    (PureOverlap, PureMixedOverlap, UhlmannCommuting, TraceDistCommuting, PartialTraceOK for EVERY subset of kept
    qubits, InfidelityCrossRep) and checks the relational laws (symmetry, range, F = 1 iff equal, triangle inequality,
    Fuchs - van de Graaf) on fixed-point numbers.
"""
from __future__ import annotations

import itertools
import warnings
from fractions import Fraction

import numpy as np

from engine import project as pj
from engine import stabgen as sg

FX = 10000


def rat_out(f):
    try:
        with warnings.catch_warnings():
            warnings.simplefilter("error", category=RuntimeWarning)
            v = f()
        # the nearest rational with a small denominator; where the spec knows the exact value it must equal it,
        # elsewhere (non-commuting mixtures: irrational values) the number is not compared
        # (eigen-decomposition based values carry ~1e-8 of numerical noise; exact values here have denominators <= 3200)
        fr = Fraction(float(np.real(v))).limit_denominator(4096)
        if abs(float(fr) - float(np.real(v))) > 1e-6:
            return {"err": "", "n": 0, "d": 0}        # not a small rational (d = 0 marks it)
        return {"err": "", "n": fr.numerator, "d": fr.denominator}
    except Exception as ex:
        return {"err": type(ex).__name__, "n": 0, "d": 1}


WEIGHT_SETS = [  # (weights, square roots) with rational roots, sum 1
    [(Fraction(1), Fraction(1))],
    [(Fraction(1, 4), Fraction(1, 2)), (Fraction(1, 4), Fraction(1, 2)), (Fraction(1, 4), Fraction(1, 2)), (Fraction(1, 4), Fraction(1, 2))],
    [(Fraction(9, 25), Fraction(3, 5)), (Fraction(16, 25), Fraction(4, 5))],
    [(Fraction(1, 9), Fraction(1, 3)), (Fraction(4, 9), Fraction(2, 3)), (Fraction(4, 9), Fraction(2, 3))],
    [(Fraction(1, 16), Fraction(1, 4)), (Fraction(9, 16), Fraction(3, 4)), (Fraction(1, 4), Fraction(1, 2)), (Fraction(1, 8), None)],
]


def basis_states(rows):
    """all 2^n sign variants of a generating set: one orthonormal stabilizer basis"""
    n = len(rows)
    out = []
    for signs in itertools.product((0, 1), repeat=n):
        out.append([{"s": (r["s"] + s) % 2, "p": r["p"]} for r, s in zip(rows, signs)])
    return out


def make_state(rng, members, weights):
    """members: list of row lists; weights: list of (w, sqrt w)"""
    br = []
    rho = 0
    for rows, (w, sw) in zip(members, weights):
        br.append({"w": [w.numerator, w.denominator], "sw": [sw.numerator, sw.denominator], "rows": rows})
        rho = rho + float(w) * pj.rows_to_dm(rows)
    return {"branches": br}, np.asarray(rho)


def random_states(rng, groups_by_n, count):
    """-> list of (spec state, dm, n)"""
    out = []
    usable = [ws for ws in WEIGHT_SETS if all(sw is not None for _, sw in ws)]
    for _ in range(count):
        n = rng.choice([1, 2, 2, 3])
        kind = rng.choice(["pure", "commuting", "commuting", "mixed"])
        grp = rng.choice(groups_by_n[n])
        rows = sg.random_basis(rng, grp)
        if kind == "pure":
            members, ws = [rows], usable[0]
        elif kind == "commuting":
            ws = rng.choice([w for w in usable if len(w) <= 2 ** n])
            members = rng.sample(basis_states(rows), len(ws))
        else:
            ws = rng.choice([w for w in usable if len(w) in (2, 3)])
            members = [sg.random_basis(rng, rng.choice(groups_by_n[n])) for _ in ws]
            # distinct groups required
            keys = {tuple(sorted((tuple(r["p"]), r["s"]) for r in m)) for m in members}
        st, rho = make_state(rng, members, ws)
        st["basis_of"] = rows
        out.append((st, rho, n, kind))
    return out


def random_dm(rng, n):
    d = 2 ** n
    a = np.array([[complex(rng.gauss(0, 1), rng.gauss(0, 1)) for _ in range(d)] for _ in range(d)])
    rho = a @ a.conj().T
    return rho / np.trace(rho)


def fx(v):
    return int(round(float(np.real(v)) * FX))


def run(ctx):
    import graphiq.backends.density_matrix.functions as dmf
    from graphiq.metrics import Infidelity, TraceDistance
    from graphiq.state import QuantumState
    rng = ctx.rng
    groups = {n: sg.enumerate_groups(ctx, n) for n in (1, 2, 3)}
    traces, tid = [], 0
    pool = random_states(rng, groups, 60 if ctx.quick else 1500)
    by_n = {}
    for item in pool:
        by_n.setdefault(item[2], []).append(item)
    for n, items in by_n.items():
        for chunk_start in range(0, len(items), 12):
            chunk = items[chunk_start:chunk_start + 12]
            states = [c[0] for c in chunk]
            evs = []
            # same-basis partners so that commuting pairs occur: re-weight the first state's basis
            for i, (st, rho, _, kind) in enumerate(chunk):
                for j, (st2, rho2, _, kind2) in enumerate(chunk):
                    if rng.random() < (0.5 if ctx.quick else 0.8):
                        evs.append({"fn": "fidelity", "via": "dmf.fidelity", "a": i + 1, "b": j + 1,
                                    "out": rat_out(lambda: dmf.fidelity(rho.copy(), rho2.copy()))})
                    if rng.random() < 0.3:
                        evs.append({"fn": "trace_distance", "via": "dmf.trace_distance", "a": i + 1, "b": j + 1,
                                    "out": rat_out(lambda: dmf.trace_distance(rho.copy(), rho2.copy()))})
                    if rng.random() < 0.15:
                        def metric():
                            return Infidelity(QuantumState(rho.copy(), rep_type="dm")).evaluate(
                                QuantumState(rho2.copy(), rep_type="dm"), None)
                        evs.append({"fn": "infidelity", "via": "Infidelity(dm,dm)", "a": i + 1, "b": j + 1, "out": rat_out(metric)})
                # partial trace for every non-empty subset of kept qubits
                for r in range(1, n + 1):
                    for keep in itertools.combinations(range(n), r):
                        try:
                            red = dmf.partial_trace(rho.copy(), list(keep), [2] * n)
                            o = pj.pv_obs(red, len(keep))
                        except Exception as ex:
                            o = {"err": type(ex).__name__, "bad": "", "n": len(keep), "vec": []}
                        evs.append({"fn": "partial_trace", "via": "dmf.partial_trace", "a": i + 1,
                                    "keep": [k + 1 for k in keep], "out": o})
            tid += 1
            traces.append({"tid": tid, "meta": {"n": n, "kind": "stabilizer-mixtures"}, "states": states, "events": evs})
    # partial traces through the STATE objects (DensityMatrix.partial_trace, QuantumState.partial_trace), 3 and 4 qubits,
    # every subset in EVERY listing order (a keep list denotes a set: the factors come back in ascending qubit order)
    from graphiq.backends.density_matrix.state import DensityMatrix
    usable = [ws for ws in WEIGHT_SETS if all(sw is not None for _, sw in ws)]
    for _ in range(4 if ctx.quick else 60):
        n = rng.choice([3, 4, 4])
        ws = rng.choice([w for w in usable if len(w) in (1, 2, 3)])
        members = [sg.random_state_rows(rng, n) for _w in ws]
        st, rho = make_state(rng, members, ws)
        st["basis_of"] = members[0]
        evs = []
        lists = [list(k) for r in range(1, n) for k in itertools.permutations(range(n), r)]
        if ctx.quick and len(lists) > 40:
            lists = [k for k in lists if k != sorted(k)]          # the sorted ones are covered above
            lists = rng.sample(lists, 36) + [[0, 3, 2], [0, 2, 1], [1, 0]]
        for keep in lists:
            if max(keep) >= n:
                continue
            for via in ("DensityMatrix.partial_trace", "QuantumState.partial_trace"):
                try:
                    if via.startswith("Density"):
                        obj = DensityMatrix(rho.copy())
                        obj.partial_trace(list(keep), [2] * n)
                        red = obj.data
                    else:
                        qs = QuantumState(rho.copy(), rep_type="dm")
                        qs.partial_trace(list(keep), [2] * n)
                        red = qs.rep_data.data
                    o = pj.pv_obs(np.asarray(red), len(keep))
                except Exception as ex:
                    o = {"err": type(ex).__name__, "bad": "", "n": len(keep), "vec": []}
                evs.append({"fn": "partial_trace", "via": via, "a": 1, "keep": [k + 1 for k in sorted(keep)], "out": o})
        tid += 1
        traces.append({"tid": tid, "meta": {"n": n, "kind": "state-object partial traces, all listing orders"},
                       "states": [st], "events": evs})
    # commuting pairs: two different weightings of ONE basis
    for _ in range(20 if ctx.quick else 400):
        n = rng.choice([1, 2, 3])
        rows = sg.random_basis(rng, rng.choice(groups[n]))
        basis = basis_states(rows)
        usable = [ws for ws in WEIGHT_SETS if all(sw is not None for _, sw in ws) and len(ws) <= 2 ** n]
        sts, rhos = [], []
        for _k in range(2):
            ws = rng.choice(usable)
            st, rho = make_state(rng, rng.sample(basis, len(ws)), ws)
            sts.append(st)
            rhos.append(rho)
        evs = [{"fn": "fidelity", "via": "dmf.fidelity:commuting", "a": 1, "b": 2,
                "out": rat_out(lambda: dmf.fidelity(rhos[0].copy(), rhos[1].copy()))},
               {"fn": "fidelity", "via": "dmf.fidelity:commuting", "a": 2, "b": 1,
                "out": rat_out(lambda: dmf.fidelity(rhos[1].copy(), rhos[0].copy()))},
               {"fn": "trace_distance", "via": "dmf.trace_distance:commuting", "a": 1, "b": 2,
                "out": rat_out(lambda: dmf.trace_distance(rhos[0].copy(), rhos[1].copy()))}]

        def td_metric():
            return TraceDistance(QuantumState(rhos[0].copy(), rep_type="dm")).evaluate(
                QuantumState(rhos[1].copy(), rep_type="dm"), None)
        evs.append({"fn": "trace_distance", "via": "TraceDistance.evaluate", "a": 1, "b": 2, "out": rat_out(td_metric)})
        tid += 1
        traces.append({"tid": tid, "meta": {"n": n, "kind": "commuting-pair"}, "states": sts, "events": evs})
    # infidelity across representations: all ordered pairs of 2-qubit stabilizer states (sampled in quick)
    g2 = groups[2]
    reps = []
    for grp in g2:
        rows = sg.random_basis(rng, grp)
        st, rho = make_state(rng, [rows], WEIGHT_SETS[0])
        tab = pj.rows_to_tableau(sg.random_destabilizers(rng, rows), rows)
        reps.append((st, rho, tab))
    pairs = [(i, j) for i in range(len(reps)) for j in range(len(reps))]
    if ctx.quick:
        pairs = rng.sample(pairs, 300)
    evs, states = [], [r[0] for r in reps]
    for i, j in pairs:
        combos = [("dm", "dm"), ("s", "s"), ("dm", "s"), ("s", "dm")]
        tr, sr = rng.choice(combos) if ctx.quick else (None, None)
        for trep, srep in ([(tr, sr)] if ctx.quick else combos):
            def metric():
                t = QuantumState(reps[i][1].copy(), rep_type="dm") if trep == "dm" else QuantumState(reps[i][2].copy(), rep_type="s")
                s = QuantumState(reps[j][1].copy(), rep_type="dm") if srep == "dm" else QuantumState(reps[j][2].copy(), rep_type="s")
                return Infidelity(t).evaluate(s, None)
            evs.append({"fn": "infidelity", "via": f"Infidelity(target={trep},state={srep})", "a": i + 1, "b": j + 1,
                        "out": rat_out(metric)})
        # the trace-distance metric with a stabilizer STATE against a density-matrix target (the state is converted inside);
        # the spec decides the value where it is rational (equal, orthogonal or otherwise commuting pairs)
        jj = j if (i + j) % 3 else i

        def td_cross(i=i, jj=jj):
            return TraceDistance(QuantumState(reps[i][1].copy(), rep_type="dm")).evaluate(
                QuantumState(reps[jj][2].copy(), rep_type="s"), None)
        evs.append({"fn": "trace_distance", "via": "TraceDistance(target=dm,state=s)", "a": i + 1, "b": jj + 1, "out": rat_out(td_cross)})
    for k in range(0, len(evs), 300):
        tid += 1
        traces.append({"tid": tid, "meta": {"n": 2, "kind": "cross-representation"}, "states": states, "events": evs[k:k + 300]})
    # relational laws on generic (non-stabilizer, complex) density matrices and on mixtures
    evs = []
    for _ in range(60 if ctx.quick else 1500):
        n = rng.choice([1, 2, 3])
        trio = []
        for _k in range(3):
            if rng.random() < 0.6:
                trio.append(random_dm(rng, n))
            else:
                trio.append(rng.choice([c for c in pool if c[2] == n] or pool)[1] if any(c[2] == n for c in pool) else random_dm(rng, n))
        r, s, u = trio
        if rng.random() < 0.15:
            s = r.copy()
        try:
            with warnings.catch_warnings():
                warnings.simplefilter("error", category=RuntimeWarning)
                x = {"f_rs": fx(dmf.fidelity(r.copy(), s.copy())), "f_sr": fx(dmf.fidelity(s.copy(), r.copy())),
                     "f_rr": fx(dmf.fidelity(r.copy(), r.copy())),
                     "t_rs": fx(dmf.trace_distance(r.copy(), s.copy())), "t_sr": fx(dmf.trace_distance(s.copy(), r.copy())),
                     "t_su": fx(dmf.trace_distance(s.copy(), u.copy())), "t_ru": fx(dmf.trace_distance(r.copy(), u.copy())),
                     "t_rr": fx(dmf.trace_distance(r.copy(), r.copy())),
                     "same_rs": bool(np.allclose(r, s, atol=1e-12)), "dist_rs": fx(np.max(np.abs(r - s)))}
            evs.append({"fn": "relations", "via": "generic", "err": "", "x": x})
        except Exception as ex:
            evs.append({"fn": "relations", "via": "generic", "err": type(ex).__name__,
                        "x": {"f_rs": 0, "f_sr": 0, "f_rr": 0, "t_rs": 0, "t_sr": 0, "t_su": 0, "t_ru": 0, "t_rr": 0,
                              "same_rs": False, "dist_rs": 0}})
    for k in range(0, len(evs), 200):
        tid += 1
        traces.append({"tid": tid, "meta": {"kind": "relations"}, "states": [], "events": evs[k:k + 200]})
    ctx.judge("Trace_DM", traces, label="J: fidelity / trace distance / partial trace / infidelity on stabilizer mixtures and generic matrices", xmx="4g")
    ctx.assumptions.append("exact values only on stabilizer mixtures with rational weights (n <= 3); generic density matrices: "
                           "relational laws at 1e-4 resolution; eigen-decompositions inside graphiq are numpy's")
