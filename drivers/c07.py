"""C07 - a Clifford tableau stays valid and tracks the right state under any history.

M : MC_Stab (all stabilizer states, semantic lemmas), MC_TabRows (all tableaux on N qubits).
G : every TLC-enumerated tableau is loaded into a real CliffordTableau and every API action is
    applied once ("star" traces).
J : random walks over the whole tableau API (n = 1..6 group-level).
Judge: Trace_Tableau.tla.
"""
from __future__ import annotations

import json

import numpy as np

from engine import project as pj

G1 = ["H", "P", "PD", "X", "Y", "Z"]
G2 = ["CNOT", "CZ", "CY"]
LETTER = {"z": 2, "x": 1, "y": 3}


def _mods():
    import graphiq.backends.stabilizer.functions.clifford as sfc
    import graphiq.backends.stabilizer.functions.transformation as tr
    from graphiq.backends.stabilizer.clifford_tableau import CliffordTableau
    from graphiq.backends.stabilizer.state import Stabilizer, MixedStabilizer
    return sfc, tr, CliffordTableau, Stabilizer, MixedStabilizer


def det_arg(d):
    return "probabilistic" if d == 2 else d


def apply_event(tab, e, via="fn"):
    """Apply one event (1-based qubits) to a CliffordTableau through the real API; returns (tableau, event with outcome)."""
    sfc, tr, CliffordTableau, Stabilizer, MixedStabilizer = _mods()
    ev = e["ev"]
    e = dict(e)
    if ev == "g1":
        q = e["a"] - 1
        if via == "stab":
            s = Stabilizer(tab)
            {"H": s.apply_hadamard, "P": s.apply_phase, "PD": s.apply_phase_dagger, "X": s.apply_sigmax,
             "Y": s.apply_sigmay, "Z": s.apply_sigmaz}[e["g"]](q)
            return s.tableau, e
        if via == "mixed":
            s = MixedStabilizer(tab)
            {"H": s.apply_hadamard, "P": s.apply_phase, "PD": s.apply_phase_dagger, "X": s.apply_sigmax,
             "Y": s.apply_sigmay, "Z": s.apply_sigmaz}[e["g"]](q)
            return s.mixture[0][1], e
        f = {"H": tr.hadamard_gate, "P": tr.phase_gate, "PD": tr.phase_dagger_gate, "X": tr.x_gate,
             "Y": tr.y_gate, "Z": tr.z_gate}[e["g"]]
        return f(tab, q), e
    if ev == "g2":
        c, t = e["a"] - 1, e["b"] - 1
        if via == "stab" and e["g"] in ("CNOT", "CZ"):
            s = Stabilizer(tab)
            (s.apply_cnot if e["g"] == "CNOT" else s.apply_cz)(c, t)
            return s.tableau, e
        if via == "mixed" and e["g"] in ("CNOT", "CZ"):
            s = MixedStabilizer(tab)
            (s.apply_cnot if e["g"] == "CNOT" else s.apply_cz)(c, t)
            return s.mixture[0][1], e
        f = {"CNOT": tr.cnot_gate, "CZ": tr.control_z_gate, "CY": tr.control_y_gate}[e["g"]]
        return f(tab, c, t), e
    if ev == "swap":
        return sfc.swap_gate(tab, e["a"] - 1, e["b"] - 1), e
    if ev == "measz":
        if via == "stab":
            s = Stabilizer(tab)
            out = s.apply_measurement(e["a"] - 1, det_arg(e["d"]))
            e["out"] = int(out)
            return s.tableau, e
        if via == "mixed":
            s = MixedStabilizer(tab)
            outs = s.apply_measurement(e["a"] - 1, det_arg(e["d"]))
            e["out"] = int(outs[0])
            return s.mixture[0][1], e
        tab, out, _ = sfc.z_measurement_gate(tab, e["a"] - 1, det_arg(e["d"]))
        e["out"] = int(out)
        return tab, e
    if ev == "reset":
        q = e["a"] - 1
        if e["basis"] == 2 and e["v"] == 0 and via == "stab":
            s = Stabilizer(tab)
            s.reset_qubit(q, det_arg(e["d"]))
            return s.tableau, e
        if e["basis"] == 2 and e["v"] == 0 and via == "mixed":
            s = MixedStabilizer(tab)
            s.reset_qubit(q, det_arg(e["d"]))
            return s.mixture[0][1], e
        f = {2: sfc.reset_z, 1: sfc.reset_x, 3: sfc.reset_y}[e["basis"]]
        return f(tab, q, e["v"], det_arg(e["d"])), e
    if ev == "insert":
        if e.get("add"):
            return sfc.add_qubit(tab), e
        return sfc.insert_qubit(tab, e["k"] - 1), e
    if ev == "remove":
        if via == "stab":
            s = Stabilizer(tab)
            s.remove_qubit(e["a"] - 1, det_arg(e["d"]))
            return s.tableau, e
        if via == "mixed":
            s = MixedStabilizer(tab)
            s.remove_qubit(e["a"] - 1, det_arg(e["d"]))
            return s.mixture[0][1], e
        return sfc.remove_qubit(tab, e["a"] - 1, det_arg(e["d"])), e
    if ev == "ptrace":
        keep = [k - 1 for k in e["keep"]]
        if via == "stab":
            s = Stabilizer(tab)
            s.trace_out_qubits(keep, det_arg(e["d"]))
            return s.tableau, e
        if via == "mixed":
            s = MixedStabilizer(tab)
            if e["d"] == 2:
                s.partial_trace(keep, [2] * tab.n_qubits)
            else:
                s.trace_out_qubits(keep, det_arg(e["d"]))
            return s.mixture[0][1], e
        return sfc.partial_trace(tab, keep, [2] * tab.n_qubits, det_arg(e["d"])), e
    if ev == "tensor":
        others = [pj.rows_to_tableau(o["destab"], o["stab"]) for o in e["_others_rows"]]
        e["others"] = [pj.tab_obs(o) for o in others]
        del e["_others_rows"]
        return sfc.tensor([tab] + others), e
    if ev == "circuit":
        gl = []
        for g in e["gates"]:
            name = {"PD": "P_dag"}.get(g["g"], g["g"])
            gl.append((name, g["a"] - 1) if g["b"] == 0 else (name, g["a"] - 1, g["b"] - 1))
        if via == "stab":
            s = Stabilizer(tab)
            s.apply_circuit(gl, reverse=e["rev"])
            return s.tableau, e
        return tr.run_circuit(tab, gl, reverse=e["rev"]), e
    raise ValueError(ev)


def do_event(tab, e, via="fn"):
    """-> (new tableau or the old one on error, finished event dict with 'post')."""
    try:
        new, e2 = apply_event(tab, e, via)
        e2["post"] = pj.tab_obs(new)
        return new, e2
    except Exception as ex:  # errors are observations
        e2 = {k: v for k, v in e.items() if not k.startswith("_")}
        if e2["ev"] == "measz":
            e2.setdefault("out", 0)
        if e2["ev"] == "tensor":
            e2.setdefault("others", [])
        e2["post"] = pj.err_obs(ex)
        return tab, e2


ZERO1 = {"destab": [{"s": 0, "p": [1]}], "stab": [{"s": 0, "p": [2]}]}
MINUS1 = {"destab": [{"s": 0, "p": [2]}], "stab": [{"s": 1, "p": [1]}]}
BELLM = {"destab": [{"s": 0, "p": [2, 0]}, {"s": 0, "p": [0, 1]}],
         "stab": [{"s": 1, "p": [1, 1]}, {"s": 0, "p": [2, 2]}]}


def all_actions(n):
    """The whole action alphabet on an n-qubit tableau (events without outcome/post)."""
    acts = []
    for q in range(1, n + 1):
        for g in G1 + ["I"]:
            if g != "I":
                acts.append({"ev": "g1", "g": g, "a": q})
        for d in (0, 1, 2):
            acts.append({"ev": "measz", "a": q, "d": d, "out": 0})
        for basis in (1, 2, 3):
            for v in (0, 1):
                for d in (0, 1):
                    acts.append({"ev": "reset", "a": q, "basis": basis, "v": v, "d": d})
        if n >= 2:
            for d in (0, 1, 2):
                acts.append({"ev": "remove", "a": q, "d": d})
    for c in range(1, n + 1):
        for t in range(1, n + 1):
            if c != t:
                for g in G2:
                    acts.append({"ev": "g2", "g": g, "a": c, "b": t})
            acts.append({"ev": "swap", "a": c, "b": t})
    for k in range(1, n + 2):
        acts.append({"ev": "insert", "k": k})
    acts.append({"ev": "insert", "k": n + 1, "add": True})
    if n >= 2:
        for keep in ([1], [n], list(range(1, n + 1)), list(range(n, 0, -1))[:max(1, n - 1)]):
            acts.append({"ev": "ptrace", "keep": keep, "d": 2})
    acts.append({"ev": "tensor", "_others_rows": [MINUS1]})
    acts.append({"ev": "tensor", "_others_rows": [BELLM, ZERO1]})
    gates = [{"g": "H", "a": 1, "b": 0}, {"g": "P", "a": n, "b": 0}, {"g": "PD", "a": 1, "b": 0},
             {"g": "Y", "a": n, "b": 0}]
    if n >= 2:
        gates += [{"g": "CNOT", "a": 1, "b": n}, {"g": "P", "a": 1, "b": 0}, {"g": "CZ", "a": n, "b": 1}]
    gates += [{"g": "X", "a": 1, "b": 0}, {"g": "I", "a": 1, "b": 0}, {"g": "Z", "a": n, "b": 0}]
    for rev in (False, True):
        acts.append({"ev": "circuit", "gates": gates, "rev": rev})
    return acts


def star_trace(tid, rows, vias, kinds=None):
    n = len(rows) // 2
    destab, stab = rows[:n], rows[n:]
    sfc, tr, CliffordTableau, Stabilizer, MixedStabilizer = _mods()
    base = pj.rows_to_tableau(destab, stab)
    init = pj.tab_obs(base)
    events = []
    acts = [a for a in all_actions(n) if kinds is None or a["ev"] in kinds]
    for k, a in enumerate(acts):
        shared = (k % 9 == 1)
        # every ninth action works on a tableau built with the ARRAY constructor from the source's own arrays (a clone as a
        # user would make it); the source must still be what it was afterwards
        tab = CliffordTableau(base.table, base.phase) if shared else base.copy()
        _, e = do_event(tab, a, vias[k % len(vias)])
        e.pop("add", None) if False else None
        events.append(e)
        if shared:
            events.append({"ev": "same", "after": a["ev"] + ":" + str(a.get("g", "")), "post": pj.tab_obs(base)})
    return {"tid": tid, "star": True, "meta": {"kind": "star", "n": n}, "init": init, "events": events}


def sampled_tableau_rows(rng, n, depth):
    """a random n-qubit tableau: random Clifford circuit from |0..0>, built with the real gate functions; the
    result is only an INPUT (validated by TLC as the trace's initial tableau)."""
    sfc, tr, CliffordTableau, Stabilizer, MixedStabilizer = _mods()
    tab = CliffordTableau(n)
    for _ in range(depth):
        r = rng.random()
        if r < 0.4 or n == 1:
            tab = rng.choice([tr.hadamard_gate, tr.phase_gate])(tab, rng.randrange(n))
        else:
            c, t = rng.sample(range(n), 2)
            tab = tr.cnot_gate(tab, c, t)
    o = pj.tab_obs(tab)
    rows = []
    for k in range(2 * n):
        rows.append({"s": o["r"][k], "p": [o["x"][k][q] + 2 * o["z"][k][q] for q in range(n)]})
    return rows


def random_event(rng, n, max_n):
    r = rng.random()
    q = rng.randint(1, n)
    if r < 0.30:
        return {"ev": "g1", "g": rng.choice(G1), "a": q}
    if r < 0.50 and n >= 2:
        c, t = rng.sample(range(1, n + 1), 2)
        return {"ev": "g2", "g": rng.choice(G2), "a": c, "b": t}
    if r < 0.62:
        return {"ev": "measz", "a": q, "d": rng.choice([0, 1, 2]), "out": 0}
    if r < 0.72:
        return {"ev": "reset", "a": q, "basis": rng.choice([1, 2, 3]), "v": rng.choice([0, 1]), "d": rng.choice([0, 1, 2])}
    if r < 0.77:
        return {"ev": "swap", "a": q, "b": rng.randint(1, n)}
    if r < 0.84 and n < max_n:
        if rng.random() < 0.25:
            return {"ev": "insert", "k": n + 1, "add": True}
        return {"ev": "insert", "k": rng.randint(1, n + 1)}
    if r < 0.90 and n >= 2:
        return {"ev": "remove", "a": q, "d": rng.choice([0, 1, 2])}
    if r < 0.93 and n >= 3:
        keep = rng.sample(range(1, n + 1), rng.randint(1, n - 1))          # listed in any order: a keep list is a set
        return {"ev": "ptrace", "keep": keep, "d": 2}
    if r < 0.96 and n + 1 <= max_n:
        return {"ev": "tensor", "_others_rows": [rng.choice([ZERO1, MINUS1])]}
    gates = []
    for _ in range(rng.randint(1, 6)):
        if n >= 2 and rng.random() < 0.4:
            c, t = rng.sample(range(1, n + 1), 2)
            gates.append({"g": rng.choice(["CNOT", "CZ"]), "a": c, "b": t})
        else:
            gates.append({"g": rng.choice(G1 + ["I"]), "a": rng.randint(1, n), "b": 0})
    return {"ev": "circuit", "gates": gates, "rev": rng.random() < 0.5}


def walk_trace(tid, rng, n0, steps, max_n):
    sfc, tr, CliffordTableau, Stabilizer, MixedStabilizer = _mods()
    np.random.seed(rng.randint(0, 2 ** 31 - 1))
    tab = CliffordTableau(n0)
    init = pj.tab_obs(tab)
    events = []
    for _ in range(steps):
        n = tab.n_qubits
        a = random_event(rng, n, max_n)
        via = rng.choice(["fn", "fn", "stab", "mixed"])
        backup = tab.copy()
        new, e = do_event(tab, a, via)
        e.pop("add", None)
        e["via"] = via
        events.append(e)
        if e["post"]["err"]:
            tab = backup      # the call failed; continue from the state before it (the spec stays too)
            break
        tab = new
    return {"tid": tid, "star": False, "meta": {"kind": "walk", "n0": n0}, "init": init, "events": events}


def mid_walk(tid, rng, n0, rounds):
    """9 - 11 qubits, judged at GROUP level (512 - 2048 group elements): entangling gates, then a partial trace that
    drops two or more positions at once - the last position (>= 9) among them - then more gates and another trace.
    Position sets beyond 8 are where "the positions to drop" stop being small-set-ordered."""
    sfc, tr, CliffordTableau, Stabilizer, MixedStabilizer = _mods()
    np.random.seed(rng.randint(0, 2 ** 31 - 1))
    tab = CliffordTableau(n0)
    init = pj.tab_obs(tab)
    events = []
    ok = True
    for rnd in range(rounds):
        n = tab.n_qubits
        if n < 4 or not ok:
            break
        acts = []
        for q in rng.sample(range(1, n + 1), max(2, n // 2)):
            acts.append({"ev": "g1", "g": "H", "a": q})
        for _ in range(n):
            c, t = rng.sample(range(1, n + 1), 2)
            acts.append({"ev": "g2", "g": rng.choice(G2), "a": c, "b": t})
            if rng.random() < 0.4:
                acts.append({"ev": "g1", "g": rng.choice(G1), "a": rng.randint(1, n)})
        drop = {n} | set(rng.sample(range(1, n), rng.randint(1, min(2, n - 2))))     # at least one position is kept
        keep = [k for k in range(1, n + 1) if k not in drop]
        rng.shuffle(keep)
        acts.append({"ev": "ptrace", "keep": keep, "d": rng.choice([2, 2, 0, 1])})
        for a in acts:
            via = rng.choice(["fn", "fn", "stab", "mixed"]) if a["ev"] == "ptrace" else "fn"
            backup = tab.copy()
            new, e = do_event(tab, a, via)
            e["via"] = via
            events.append(e)
            if e["post"]["err"]:
                tab = backup
                ok = False
                break
            tab = new
    return {"tid": tid, "star": False, "meta": {"kind": "mid-walk", "n0": n0}, "init": init, "events": events}


# ----------------------------------------------------------------------------------------------------------
# large tableaux: generator-level judging with certificates (Trace_TableauBig)
def _bits(o):
    """stabilizer rows of a tab_obs as python ints: bit q = x_q, bit n + q = z_q"""
    n = o["n"]
    rows = []
    for j in range(n, 2 * n):
        v = 0
        for q in range(n):
            if o["x"][j][q]:
                v |= 1 << q
            if o["z"][j][q]:
                v |= 1 << (n + q)
        rows.append(v)
    return rows


def _expected_bits(rows, n, e):
    """unsigned expected generators in the SAME order as Expected() of the spec (harness helper: TLC verifies)."""
    def xb(v, q):
        return (v >> q) & 1

    def zb(v, q):
        return (v >> (n + q)) & 1

    def flipx(v, q):
        return v ^ (1 << q)

    def flipz(v, q):
        return v ^ (1 << (n + q))
    out = []
    ev = e["ev"]
    if ev == "g1":
        q = e["a"] - 1
        for v in rows:
            if e["g"] == "H":
                x, z = xb(v, q), zb(v, q)
                if x != z:
                    v = flipx(flipz(v, q), q)
            elif e["g"] in ("P", "PD"):
                if xb(v, q):
                    v = flipz(v, q)
            out.append(v)
        return out
    if ev == "g2":
        c, t = e["a"] - 1, e["b"] - 1
        for v in rows:
            if e["g"] == "CY" and xb(v, t):
                v = flipz(v, t)
            if e["g"] == "CZ":
                if xb(v, t):
                    v = flipz(v, c)
                if xb(v, c):
                    v = flipz(v, t)
            else:
                if xb(v, c):
                    v = flipx(v, t)
                if zb(v, t):
                    v = flipz(v, c)
                if e["g"] == "CY" and xb(v, t):
                    v = flipz(v, t)
            out.append(v)
        return out
    if ev == "swap":
        a, b = e["a"] - 1, e["b"] - 1
        for v in rows:
            xa, xb_, za, zb_ = xb(v, a), xb(v, b), zb(v, a), zb(v, b)
            if xa != xb_:
                v = flipx(flipx(v, a), b)
            if za != zb_:
                v = flipz(flipz(v, a), b)
            out.append(v)
        return out
    if ev == "measz":
        q = e["a"] - 1
        anti = [i for i, v in enumerate(rows) if xb(v, q)]
        if not anti:
            return list(rows)
        p = anti[0]
        for i, v in enumerate(rows):
            if i == p:
                out.append(1 << (n + q))
            elif i in anti:
                out.append(v ^ rows[p])
            else:
                out.append(v)
        return out
    if ev == "insert":
        k = e["k"] - 1
        def ins(v):
            x = v & ((1 << n) - 1)
            z = v >> n
            def sh(w):
                return (w & ((1 << k) - 1)) | ((w >> k) << (k + 1))
            return sh(x) | (sh(z) << (n + 1))
        return [ins(v) for v in rows] + [1 << (n + 1 + k)]
    raise ValueError(ev)


def _solve(basis, targets):
    """express each target as an XOR of basis rows: list of sorted 1-based index lists (None if impossible)"""
    piv = {}
    for i, v in enumerate(basis):
        combo = 1 << i
        while v:
            hb = v.bit_length() - 1
            if hb in piv:
                pv, pc = piv[hb]
                v ^= pv
                combo ^= pc
            else:
                piv[hb] = (v, combo)
                break
    res = []
    for t in targets:
        combo = 0
        v = t
        while v:
            hb = v.bit_length() - 1
            if hb not in piv:
                break
            pv, pc = piv[hb]
            v ^= pv
            combo ^= pc
        res.append(None if v else [i + 1 for i in range(len(basis)) if (combo >> i) & 1])
    return res


def big_walk(tid, rng, n, steps, full_every):
    sfc, tr, CliffordTableau, Stabilizer, MixedStabilizer = _mods()
    np.random.seed(rng.randint(0, 2 ** 31 - 1))
    tab = CliffordTableau(n)
    init = pj.tab_obs(tab)
    events = []
    cur = init
    for step in range(steps):
        nn = tab.n_qubits
        r = rng.random()
        q = rng.randint(1, nn)
        if step < nn // 2:
            a = {"ev": "g1", "g": "H", "a": q} if step % 2 == 0 else None
            if a is None:
                c, t = rng.sample(range(1, nn + 1), 2)
                a = {"ev": "g2", "g": "CNOT", "a": c, "b": t}
        elif r < 0.35:
            a = {"ev": "g1", "g": rng.choice(G1), "a": q}
        elif r < 0.65:
            c, t = rng.sample(range(1, nn + 1), 2)
            a = {"ev": "g2", "g": rng.choice(G2), "a": c, "b": t}
        elif r < 0.85:
            a = {"ev": "measz", "a": q, "d": rng.choice([0, 1, 2]), "out": 0}
        elif r < 0.93:
            a = {"ev": "swap", "a": q, "b": rng.randint(1, nn)}
        else:
            a = {"ev": "insert", "k": rng.randint(1, nn + 1)}
        pre_rows = _bits(cur)
        new, e = do_event(tab, a, "fn")
        e["full"] = (step % full_every == 0) or step == steps - 1
        if e["post"]["err"] == "":
            exp = _expected_bits(pre_rows, nn, e)
            n2 = e["post"]["n"]
            certs = _solve(exp, _bits(e["post"]))
            e["cert"] = [c if c is not None else [] for c in certs]
            if e["ev"] == "measz":
                oc = _solve(pre_rows, [1 << (nn + e["a"] - 1)])[0]
                e["ocert"] = oc if oc is not None else []
            cur = e["post"]
            tab = new
        else:
            e["cert"] = []
            e["ocert"] = []
        events.append(e)
        if e["post"]["err"]:
            break
    return {"tid": tid, "meta": {"kind": "big-walk", "n": n}, "init": init, "events": events}


def enumerate_tableaux(ctx, n):
    cfg = f"CONSTANT N = {n}\nSPECIFICATION Spec\nINVARIANT Paired\nINVARIANT StabValid\nINVARIANT Dump\n"
    r = ctx.mc("MC_TabRows", cfg, tag=f"N{n}", workers=1, expect_distinct={1: 24, 2: 11520}.get(n))
    return [json.loads(p[1]) for p in r.prints if p[0] == "ST"]


def run(ctx):
    lem = "\n".join("INVARIANT " + i for i in ["Valid", "GateLemmas", "Homomorphism", "MeasLemmas",
                                              "EntropyLemmas", "InsertLemmas", "CloseLemma"])
    ctx.mc("MC_Stab", f"CONSTANT N = 2\nSPECIFICATION Spec\n{lem}\n", tag="N2", expect_distinct=60, coverage=True)
    if not ctx.quick:
        ctx.mc("MC_Stab", f"CONSTANT N = 3\nSPECIFICATION Spec\n{lem}\n", tag="N3", expect_distinct=1080)
        ctx.mc("MC_Stab", "CONSTANT N = 4\nSPECIFICATION Spec\nINVARIANT Valid\n", tag="N4", expect_distinct=36720)
    vias = ["fn", "fn", "stab", "fn", "mixed"]
    tabs1 = enumerate_tableaux(ctx, 1)
    tabs2 = enumerate_tableaux(ctx, 2)
    traces = []
    tid = 0
    for rows in tabs1:
        tid += 1
        traces.append(star_trace(tid, rows, vias))
    if ctx.quick:
        pick = ctx.rng.sample(range(len(tabs2)), 400)
    else:
        pick = range(len(tabs2))
    for k in pick:
        tid += 1
        traces.append(star_trace(tid, tabs2[k], vias))
    # sampled 3- and 4-qubit tableaux: every API action from each (deterministic outcomes that are products of
    # several generators only exist from 3 qubits on)
    # (a determined outcome whose +/- Z is a product of generators with an intrinsic sign shows up in ~0.6 % of
    #  (tableau, qubit) pairs at n = 3: many tableaux with the measuring actions only, a few with every action)
    meas_kinds = {"measz", "reset", "remove", "ptrace"}
    for n, cnt_meas, cnt_all in ((3, 900, 12), (4, 250, 6)) if ctx.quick else ((3, 20000, 800), (4, 5000, 300), (5, 600, 40)):
        for k in range(cnt_meas + cnt_all):
            tid += 1
            traces.append(star_trace(tid, sampled_tableau_rows(ctx.rng, n, ctx.rng.randint(4, 30)), vias,
                                     kinds=None if k < cnt_all else meas_kinds))
            if len(traces) >= 9000:        # judged in portions: the recorded traces of a thorough run do not fit comfortably
                ctx.judge("Trace_Tableau", traces, label="G: every API action from every enumerated tableau")
                traces.clear()
    ctx.extra["enumerated_tableaux"] = {"N1": len(tabs1), "N2": len(tabs2), "N2_replayed": len(list(pick))}
    ctx.extra["actions_per_tableau"] = {"N1": len(all_actions(1)), "N2": len(all_actions(2))}
    ctx.judge("Trace_Tableau", traces, label="G: every API action from every enumerated tableau")
    traces.clear()          # tens of thousands of recorded traces: not needed once judged
    # J: random walks
    walks = []
    plan = [(n0, 40) for n0 in (1, 2, 3, 4)] * 6 if ctx.quick else [(n0, 300) for n0 in (1, 2, 3, 4, 5)] * 24
    for n0, steps in plan:
        tid += 1
        walks.append(walk_trace(tid, ctx.rng, n0, steps, max_n=5 if ctx.quick else 6))
    ctx.judge("Trace_Tableau", walks, label="J: random walks over the tableau API")
    walks.clear()
    mids = []
    for n0 in (9, 10, 11, 9, 10, 12) if ctx.quick else (9, 10, 11, 12) * 12:
        tid += 1
        mids.append(mid_walk(tid, ctx.rng, n0, 2 if ctx.quick else 3))
    ctx.judge("Trace_Tableau", mids, label="J: 9 - 12 qubit walks with multi-qubit partial traces (group level)", xmx="6g",
              shards=min(len(mids), 12))
    # large tableaux, generator level
    big = []
    plan = [(24, 60, 1), (64, 40, 1)] if ctx.quick else [(24, 200, 1)] * 6 + [(64, 120, 1)] * 4 + [(200, 130, 20)] * 2
    for n, steps, full_every in plan:
        tid += 1
        big.append(big_walk(tid, ctx.rng, n, steps, full_every))
    ctx.judge("Trace_TableauBig", big, label="J: large tableaux (n = 24 .. 200) judged at generator level with certificates",
              xmx="6g", shards=len(big))
    ctx.extra["big_walk_sizes"] = sorted({n for n, _, _ in plan})
    ctx.assumptions.append("group-level judging for n <= 6, generator-level judging with TLC-verified certificates for "
                           "n = 24 .. 200 (gates, swap, Z-measurement, insert); reset/remove of an entangled qubit accepted "
                           "for SOME possible outcome")
