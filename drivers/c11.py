"""C11 - the synthesised inverse circuit prepares exactly the given stabilizer state.

G : TLC enumerates all stabilizer states on n <= 3 qubits (and all graphs n <= 4/5 for the graph leg); python
    presents each in random generating sets; inverse_circuit / clifford_from_stabilizer / CliffordTableau(StabilizerTableau)
    / get_clifford_tableau_from_graph / run_circuit(reverse=True) are called by the real code.
Judge: Trace_StabFn.tla (InverseOK, InverseTableau*, Clifford*, GraphTableauOK) with spec gate semantics.
"""
from __future__ import annotations

import itertools

import networkx as nx

from engine import project as pj
from engine import stabgen as sg


def events_for(rows):
    from graphiq.backends.stabilizer.functions.stabilizer import inverse_circuit
    from graphiq.backends.stabilizer.functions.rep_conversion import clifford_from_stabilizer
    from graphiq.backends.stabilizer.clifford_tableau import CliffordTableau
    import graphiq.backends.stabilizer.functions.transformation as tr
    import graphiq.backends.stabilizer.functions.clifford as sfc
    st = sg.stabilizer_tableau(rows)
    o = pj.stab_obs(st)
    o["kind"] = "S"
    evs = []
    circ = None
    try:
        tab, circ = inverse_circuit(st.copy())
        evs.append({"fn": "inverse_circuit", "a": 1,
                    "out": {"err": "", "tab": pj.stab_obs(tab), "gates": sg.gate_list_obs(circ)}})
    except Exception as ex:
        evs.append({"fn": "inverse_circuit", "a": 1, "out": pj.err_obs(ex)})
    # the gate list of the inverse circuit is passed along as context: every tableau construction below is built from it,
    # and the spec uses it to attribute a failure to the synthesis (known finding) rather than to the construction
    ctx_gates = sg.gate_list_obs(circ) if circ is not None else []
    from graphiq.backends.stabilizer.state import Stabilizer

    def via_state_object():
        s_obj = Stabilizer(st.n_qubits)
        s_obj.apply_circuit(list(circ), reverse=True)
        return s_obj.tableau
    extra = []
    if sum(r["s"] + sum(r["p"]) for r in rows) % 4 == 0:       # the further routes on about a quarter of the inputs
        extra = [("CliffordTableau(CliffordTableau(StabilizerTableau))", lambda: CliffordTableau(CliffordTableau(st.copy()))),
                 ("clifford_from_stabilizer(...).to_stabilizer() again", lambda: clifford_from_stabilizer(
                     clifford_from_stabilizer(st.copy()).to_stabilizer()))]
        if circ is not None:
            extra.append(("Stabilizer(n).apply_circuit(reverse=True)", via_state_object))
    for name, f in [("clifford_from_stabilizer", lambda: clifford_from_stabilizer(st.copy())),
                    ("CliffordTableau(StabilizerTableau)", lambda: CliffordTableau(st.copy()))] + extra:
        try:
            evs.append({"fn": "to_clifford", "via": name, "a": 1, "ctx_gates": ctx_gates, "out": pj.tab_obs(f())})
        except Exception as ex:
            evs.append({"fn": "to_clifford", "via": name, "a": 1, "ctx_gates": ctx_gates, "out": pj.err_obs(ex)})
    if circ is not None:
        # running the returned list backwards from |0..0> must reproduce the state
        try:
            t0 = sfc.create_n_ket0_state(st.n_qubits)
            evs.append({"fn": "to_clifford", "via": "run_circuit(reverse=True)", "a": 1, "ctx_gates": ctx_gates,
                        "out": pj.tab_obs(tr.run_circuit(t0, list(circ), reverse=True))})
        except Exception as ex:
            evs.append({"fn": "to_clifford", "via": "run_circuit(reverse=True)", "a": 1, "ctx_gates": ctx_gates,
                        "out": pj.err_obs(ex)})
    return o, evs


def all_graphs(n):
    pairs = list(itertools.combinations(range(n), 2))
    for mask in range(1 << len(pairs)):
        g = nx.Graph()
        g.add_nodes_from(range(n))
        g.add_edges_from(p for k, p in enumerate(pairs) if (mask >> k) & 1)
        yield g


def run(ctx):
    from graphiq.backends.stabilizer.functions.rep_conversion import get_clifford_tableau_from_graph
    rng = ctx.rng
    traces, tid = [], 0
    total_sets = 0
    for n, nsets in ((1, 2), (2, 6), (3, 3 if ctx.quick else 24)):
        groups = sg.enumerate_groups(ctx, n)
        for grp in groups:
            if n == 2 and not ctx.quick:
                bases = list(sg.all_bases(grp))
            else:
                bases = [sg.random_basis(rng, grp) for _ in range(nsets)]
            for rows in bases:
                o, evs = events_for(rows)
                tid += 1
                total_sets += 1
                traces.append({"tid": tid, "meta": {"kind": "state", "n": n}, "states": [o], "events": evs})
    if not ctx.quick:
        groups4 = sg.enumerate_groups(ctx, 4)
        for grp in rng.sample(groups4, 3000):
            o, evs = events_for(sg.random_basis(rng, grp))
            tid += 1
            total_sets += 1
            traces.append({"tid": tid, "meta": {"kind": "state", "n": 4}, "states": [o], "events": evs})
    # 5..7-qubit states: sampled (independent plain-Python sampler, random re-gauging); the greedy Hadamard block of the
    # synthesis used to fail for about 1 in 4000 generating sets at n = 5 and 1 in 300 at n = 7 (fixed: C11-F1)
    for n, k in ((5, 300), (6, 100), (7, 30)) if ctx.quick else ((5, 12000), (6, 6000), (7, 3000)):
        for _ in range(k):
            o, evs = events_for(sg.random_state_rows(rng, n))
            tid += 1
            total_sets += 1
            traces.append({"tid": tid, "meta": {"kind": "state", "n": n}, "states": [o], "events": evs})
    # states chosen by execution coverage of the synthesis (fallback branches that random states reach once in thousands)
    from engine import circuits as cz
    pool = cz.inv_pool()
    for rows in pool[:40] if ctx.quick else pool:
        o, evs = events_for(rows)
        tid += 1
        total_sets += 1
        traces.append({"tid": tid, "meta": {"kind": "state", "n": len(rows), "origin": "coverage-pool"}, "states": [o], "events": evs})
    ctx.extra["coverage_pool_states"] = len(pool[:40] if ctx.quick else pool)
    ctx.extra["generating_sets_fed"] = total_sets
    # graph leg: all labelled graphs n <= 4 (quick) / n <= 5 (thorough)
    ng = 0
    for n in (1, 2, 3, 4) if ctx.quick else (1, 2, 3, 4, 5):
        evs = []
        for g in all_graphs(n):
            edges = [[u + 1, v + 1] for u, v in g.edges()]
            try:
                out = pj.tab_obs(get_clifford_tableau_from_graph(g))
            except Exception as ex:
                out = pj.err_obs(ex)
            evs.append({"fn": "graph_to_clifford", "n": n, "edges": edges, "out": out})
            ng += 1
            if len(evs) >= 64:
                tid += 1
                traces.append({"tid": tid, "meta": {"kind": "graph", "n": n}, "states": [], "events": evs})
                evs = []
        if evs:
            tid += 1
            traces.append({"tid": tid, "meta": {"kind": "graph", "n": n}, "states": [], "events": evs})
    ctx.extra["graphs_fed"] = ng
    ctx.judge("Trace_StabFn", traces, label="G: inverse circuit / Clifford tableau construction on enumerated states and graphs")
