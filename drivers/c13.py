"""C13 - circuit rewrites preserve the state; library calls do not mutate their inputs.

J : random interleavings of API calls (copy, unwrap, group, remove_identity, assign_noise with empty / non-empty map,
    Monte-Carlo assign_noise, compile (both backends, noise on/off), metric evaluation, solver run on a target, circuit
    comparison, export) over a pool of circuits and target states.  After EVERY call the behaviour of EVERY live object
    (operations with noise descriptors, openQASM text, state compiled from a deep copy) is logged; Trace_Lib.tla checks
    FrameOK (nothing outside the call's write set changed), RewriteOK, DeterministicCompile, NoisyCopyOK.
"""
from __future__ import annotations

import copy
import warnings

import networkx as nx
import numpy as np

from engine import circuits as cz
from engine import project as pj


def noise_desc(noise):
    if isinstance(noise, list):
        return "[" + ",".join(noise_desc(x) for x in noise) + "]"
    if isinstance(noise, type):
        return "class:" + noise.__name__
    params = getattr(noise, "noise_parameters", {})
    items = []
    for k in sorted(params):
        v = params[k]
        items.append(f"{k}={v if not hasattr(v, 'shape') else 'array'}")
    return type(noise).__name__ + "(" + ";".join(items) + ")"


def circuit_beh(circuit):
    from graphiq.backends.stabilizer.compiler import StabilizerCompiler
    circ, nodes = cz.project_circuit(circuit)
    for k, n in enumerate(nodes):
        circ["ops"][k]["noise"] = noise_desc(circuit.dag.nodes[n]["op"].noise)
    try:
        qasm = circuit.copy().to_openqasm()
    except Exception as ex:
        qasm = "ERR:" + type(ex).__name__
    try:
        comp = StabilizerCompiler()
        comp.measurement_determinism = 1
        st = comp.compile(copy.deepcopy(circuit))
        fin = pj.tab_obs(st.rep_data.data)
    except Exception as ex:
        fin = pj.err_obs(ex)
    return {"t": "circ", "circ": circ, "qasm": qasm, "fin": fin}


def state_beh(qs):
    try:
        c = copy.deepcopy(qs)
        c.convert_representation("s")
        obs = pj.tab_obs(c.rep_data.data)
    except Exception as ex:
        obs = pj.err_obs(ex)
    return {"t": "state", "obs": obs}


def beh(obj):
    from graphiq.state import QuantumState
    return state_beh(obj) if isinstance(obj, QuantumState) else circuit_beh(obj)


def noise_maps():
    import graphiq.noise.noise_models as nm
    dep = nm.DepolarizingNoise(0.1875)
    full = {"e": {"Hadamard": dep, "SigmaX": nm.PauliError("X"), "Phase": dep},
            "p": {"Hadamard": nm.PhotonLoss(0.25), "Phase": dep},
            "ee": {"CNOT": dep}, "ep": {"CNOT": [dep, nm.PhotonLoss(0.25)]}}
    empty = {"e": dict(), "p": dict(), "ee": dict(), "ep": dict()}
    if MIXED_PLACEMENT[0]:
        # control noise BEFORE the gate, target noise after it (and the reverse): the compile loop then handles the two
        # halves of a controlled gate's noise separately
        def before(nz):
            nz.noise_parameters["After gate"] = False
            return nz
        full = {"e": {"Hadamard": before(nm.PauliError("Z")), "SigmaX": nm.PauliError("X"), "Phase": before(nm.DepolarizingNoise(0.1875))},
                "p": {"Hadamard": nm.PhotonLoss(0.25), "Phase": before(nm.PauliError("Y"))},
                "ee": {"CNOT": [nm.PauliError("X"), before(nm.PauliError("Z"))]},
                "ep": {"CNOT": [before(nm.PauliError("Z")), nm.PauliError("X")]}}
    return full, empty


MIXED_PLACEMENT = [False]


def history(tid, rng, steps):
    import graphiq.noise.noise_models as nm
    import graphiq.noise.monte_carlo_noise as mcn
    import graphiq.metrics as gm
    from graphiq.backends.stabilizer.compiler import StabilizerCompiler
    from graphiq.backends.density_matrix.compiler import DensityMatrixCompiler
    from graphiq.solvers.time_reversed_solver import TimeReversedSolver
    MIXED_PLACEMENT[0] = rng.random() < 0.5
    full, empty = noise_maps()
    wrappers = cz.library_wrappers()
    objs = {}
    nxt = [0]

    def new(o):
        nxt[0] += 1
        objs[str(nxt[0])] = o
        return str(nxt[0])

    for _ in range(2):
        n_e, n_p = rng.choice([(1, 1), (1, 2), (2, 1), (2, 2)])
        # emission-style circuits (controls are emitters): the domain of the noise maps {e, p, ee, ep}
        from drivers.c18 import emission_like_program
        prog = emission_like_program(rng, n_e, n_p, rng.randint(3, 9))
        if rng.random() < 0.5:
            prog.append({"k": "MeasurementZ", "r": [["e", 0]], "c": 0})
        new(cz.build_circuit(n_e, n_p, 1, prog))
    g = rng.choice([nx.path_graph(3), nx.cycle_graph(4), nx.star_graph(2), nx.complete_graph(3)])
    new(cz.target_state(g, rng.choice(["g", "s", "dm"])))
    # a second target: the state a photon-only Clifford circuit WITH Pauli gates compiles to (generators with mixed signs),
    # as many qubits as circuit 1 has photons, so that the metric can be evaluated against it
    n_t = max(objs["1"].n_photons, 1)
    tprog = []
    for _k in range(rng.randint(3, 8)):
        if n_t >= 2 and rng.random() < 0.3:
            a, b = rng.sample(range(n_t), 2)
            tprog.append({"k": "CNOT", "r": [["p", a], ["p", b]], "c": None})
        else:
            tprog.append({"k": rng.choice(["Hadamard", "Phase", "SigmaX", "SigmaY", "SigmaZ"]), "r": [["p", rng.randrange(n_t)]], "c": None})
    tprog.append({"k": rng.choice(["SigmaX", "SigmaY", "SigmaZ"]), "r": [["p", rng.randrange(n_t)]], "c": None})
    new(StabilizerCompiler().compile(cz.build_circuit(0, n_t, 0, tprog)))
    init = {k: beh(v) for k, v in objs.items()}
    events = []
    for _ in range(steps):
        circs = [k for k, v in objs.items() if not hasattr(v, "rep_type")]
        states = [k for k, v in objs.items() if hasattr(v, "rep_type")]
        if len(objs) > 7:
            # forget the oldest non-initial object (dropping a reference is not a library call)
            gone = list(objs)[4:5]
            for k in gone:
                del objs[k]
            events.append({"ev": "forget", "args": gone, "ret": "", "err": "", "forced": False,
                           "objs": {k: beh(v) for k, v in objs.items()}})
            continue
        call = rng.choice(["copy", "unwrap", "group", "rm_identity", "assign_noise", "assign_noise_empty",
                           "mc_assign_noise", "compile", "compile", "compile_noisy", "metric", "circuit_metric",
                           "solve", "compare", "export", "sequence"])
        k = rng.choice(circs)
        c = objs[k]
        e = {"ev": call, "args": [k], "ret": "", "err": "", "forced": False}
        try:
            with warnings.catch_warnings():
                warnings.simplefilter("ignore")
                np.random.seed(rng.randrange(2 ** 31))
                if call == "copy":
                    e["ret"] = new(c.copy())
                elif call == "unwrap":
                    c.unwrap_nodes()
                elif call == "group":
                    c.group_one_qubit_gates()
                elif call == "rm_identity":
                    c.remove_identity()
                elif call == "assign_noise":
                    e["ret"] = new(c.assign_noise(full))
                elif call == "assign_noise_empty":
                    e["ret"] = new(c.assign_noise(empty))
                elif call == "mc_assign_noise":
                    if any(type(c.dag.nodes[nd]["op"].noise).__name__ != "NoNoise" and
                           not all(type(z).__name__ == "NoNoise" for z in (c.dag.nodes[nd]["op"].noise
                                   if isinstance(c.dag.nodes[nd]["op"].noise, list) else [c.dag.nodes[nd]["op"].noise]))
                           for nd in c.dag.nodes):
                        continue        # Monte-Carlo noise is drawn for a noise-FREE circuit (its documented input)
                    m = mcn.McNoiseMap()
                    m.add_gate_noise("e", "Hadamard", [(nm.PauliError("X"), 0.5), (nm.PauliError("Z"), 0.25)])
                    m.add_gate_noise("ep", "CNOT", [(nm.PauliError("Y"), 0.5)])
                    m.add_gate_noise("p", "Phase", [(nm.PauliError("Z"), 0.75)])
                    mc = mcn.MonteCarloNoise(c, 1, m, StabilizerCompiler(), rng.randrange(1000))
                    mc.n_noisy_gates = 0          # as one_run() does before it calls assign_noise()
                    e["ret"] = new(mc.assign_noise())
                elif call == "compile":
                    comp = StabilizerCompiler()
                    comp.measurement_determinism = 1
                    e["forced"] = True
                    e["ret"] = new(comp.compile(c))
                elif call == "compile_noisy":
                    comp = rng.choice([StabilizerCompiler, DensityMatrixCompiler])()
                    comp.noise_simulation = True
                    comp.measurement_determinism = rng.choice([0, 1])
                    try:
                        comp.compile(c)
                    except Exception:
                        pass       # unsupported noise / measurement combinations are C06's business; the frame is ours
                elif call == "metric":
                    comp = StabilizerCompiler()
                    comp.measurement_determinism = 1
                    st = comp.compile(c.copy())
                    st.partial_trace(keep=list(range(c.n_photons)), dims=(c.n_quantum) * [2]) if c.n_photons else None
                    tk = rng.choice(states)
                    e["args"] = [k, tk]
                    tgt = objs[tk]
                    if tgt.n_qubits == c.n_photons:
                        gm.Infidelity(tgt).evaluate(st, c)
                elif call == "circuit_metric":
                    for cls in (gm.CircuitDepth, gm.CircuitUnitaryCount, gm.CircuitMaxEmitDepth, gm.CircuitMeasureCount):
                        try:
                            cls().evaluate(None, c)
                        except Exception:
                            pass
                elif call == "solve":
                    tk = rng.choice(["3", "3", "4"])   # the graph-state target of this history, or the signed one
                    e["args"] = [tk]
                    tgt = objs[tk]
                    comp = StabilizerCompiler()
                    if tk == "3":
                        solver = TimeReversedSolver(target=tgt, metric=gm.Infidelity(tgt), compiler=comp)
                        solver.solve()
                        e["ret"] = new(solver.result[1])
                    else:
                        try:        # what the solver makes of a signed target is C02's business; the frame is ours
                            solver = TimeReversedSolver(target=tgt, metric=gm.Infidelity(tgt), compiler=comp)
                            solver.solve()
                        except Exception:
                            pass
                elif call == "compare":
                    k2 = rng.choice(circs)
                    e["args"] = [k, k2]
                    try:
                        c.compare(objs[k2], method=rng.choice(["direct", "direct", "GED_adaptive"]))
                    except Exception:
                        pass
                elif call == "export":
                    c.to_openqasm()
                    try:
                        c.to_json()
                    except Exception:
                        pass
                elif call == "sequence":
                    c.sequence(unwrapped=True)
                    _ = c.depth, c.register_depth
        except Exception as ex:
            e["err"] = type(ex).__name__
        e["objs"] = {kk: beh(v) for kk, v in objs.items()}
        events.append(e)
        if e["err"]:
            break
    return {"tid": tid, "meta": {"kind": "lib-history"}, "init": init, "events": events}


def rewrite_trace(tid, rng):
    """Every rewrite applied systematically to one random circuit (with adjacent wrappers / gates / identities), also in
    sequences (group, add a gate, group again; unwrap then group; group then unwrap)."""
    wrappers = cz.library_wrappers()
    n_e, n_p = rng.choice([(1, 1), (2, 1), (1, 2)])
    regs = [["e", i] for i in range(n_e)] + [["p", i] for i in range(n_p)]
    prog = []
    for _ in range(rng.randint(3, 10)):
        r = rng.random()
        if r < 0.35:
            prog.append({"k": "OneQubitGateWrapper", "r": [rng.choice(regs)], "c": None, "w": rng.choice(wrappers)})
        elif r < 0.7:
            prog.append({"k": rng.choice(cz.ONEQ), "r": [rng.choice(regs)], "c": None})
        elif r < 0.9:
            a = ["e", rng.randrange(n_e)]           # controls are emitters: the domain of the noise maps
            b = rng.choice([x for x in regs if x != a])
            prog.append({"k": rng.choice(cz.TWOQ), "r": [a, b], "c": None})
        else:
            prog.append({"k": "MeasurementZ", "r": [rng.choice(regs)], "c": 0})
    objs = {"1": cz.build_circuit(n_e, n_p, 1, prog)}
    init = {"1": beh(objs["1"])}
    events = []
    nxt = [1]

    def step(ev, src, f, ret_new):
        e = {"ev": ev, "args": [src], "ret": "", "err": "", "forced": False}
        try:
            with warnings.catch_warnings():
                warnings.simplefilter("ignore")
                out = f(objs[src])
            if ret_new:
                nxt[0] += 1
                objs[str(nxt[0])] = out
                e["ret"] = str(nxt[0])
        except Exception as ex:
            e["err"] = type(ex).__name__
        e["objs"] = {k: beh(v) for k, v in objs.items()}
        events.append(e)
        return e["ret"]

    MIXED_PLACEMENT[0] = rng.random() < 0.5
    full, empty = noise_maps()
    c2 = step("copy", "1", lambda c: c.copy(), True)
    step("group", c2, lambda c: c.group_one_qubit_gates(), False)
    # add a one-qubit gate after grouping (a new object: the call is 'copy' of the edited circuit), then group again
    def add_gate(c):
        d = c.copy()
        d.add(cz.build_op({"k": rng.choice(["Hadamard", "Phase", "SigmaX"]), "r": [rng.choice(regs)], "c": None}))
        return d
    try:
        nxt[0] += 1
        objs[str(nxt[0])] = add_gate(objs[c2])
        c3 = str(nxt[0])
        events.append({"ev": "forget", "args": [], "ret": "", "err": "", "forced": False,
                       "objs": {k: beh(v) for k, v in objs.items()}})
        step("group", c3, lambda c: c.group_one_qubit_gates(), False)
        step("unwrap", c3, lambda c: c.unwrap_nodes(), False)
    except Exception:
        pass
    c4 = step("copy", "1", lambda c: c.copy(), True)
    step("unwrap", c4, lambda c: c.unwrap_nodes(), False)
    step("group", c4, lambda c: c.group_one_qubit_gates(), False)
    step("rm_identity", c4, lambda c: c.remove_identity(), False)
    c5 = step("copy", "1", lambda c: c.copy(), True)
    step("rm_identity", c5, lambda c: c.remove_identity(), False)
    step("assign_noise_empty", "1", lambda c: c.assign_noise(empty), True)
    # a noisy copy compiled with noise simulation on, twice, by each backend: compiling must leave the circuit (its noise
    # descriptors included) as it was, so that a repeated compile means the same
    if all(s["k"] != "MeasurementZ" for s in prog):
        from graphiq.backends.stabilizer.compiler import StabilizerCompiler
        from graphiq.backends.density_matrix.compiler import DensityMatrixCompiler
        c6 = step("assign_noise", "1", lambda c: c.assign_noise(full), True)
        if c6:
            for cls in (DensityMatrixCompiler, StabilizerCompiler, DensityMatrixCompiler):
                def noisy(c, cls=cls):
                    comp = cls()
                    comp.noise_simulation = True
                    comp.measurement_determinism = 1
                    try:
                        comp.compile(c)
                    except Exception:
                        pass        # unsupported combinations are C06's business; the frame is ours
                step("compile_noisy", c6, noisy, False)
    return {"tid": tid, "meta": {"kind": "rewrites", "program": prog, "mixed_placement": MIXED_PLACEMENT[0]}, "init": init, "events": events}


def run(ctx):
    rng = ctx.rng
    traces = [history(i + 1, rng, 25 if ctx.quick else 60) for i in range(12 if ctx.quick else 400)]
    traces += [rewrite_trace(10000 + i, rng) for i in range(40 if ctx.quick else 1500)]
    ctx.judge("Trace_Lib", traces, label="J: API-call interleavings with the behaviour of every live object", xmx="4g")
