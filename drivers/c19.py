"""C19 - random-search solvers are reproducible and report honest, ordered results.

M : MC_Evo - the generation loop over a heap of circuit objects (in-place mutation, hall of fame of copies, optional
    selection): HofSorted, HofHonest, HofPrivate, BestMonotone for all behaviours of a small instance; the variant that
    stores references instead of copies violates them (kept as documentation, not run here).
J : REAL solver runs (evolutionary / hybrid, stabilizer / density-matrix compiler, selection and adaptive probabilities
    on/off, hall-of-fame sizes) recorded per generation by wrapping update_logs; every hall-of-fame circuit is re-scored
    by a fresh compiler and metric.  Trace_Evo.tla: HofSorted, HofHonest, HofPrivate, BestMonotone, HofFromKnown,
    ResultIsBest, LogsMonotone, ReproducibleInProcess, ReproducibleAcrossProcesses (fresh interpreters, other hash seeds).
"""
from __future__ import annotations

import json
import os
import subprocess
import sys

import networkx as nx

from drivers import c19_child as child

EVO_CFG = """CONSTANTS
  NPop = 2
  NHof = 2
  NGen = {ngen}
  Values <- DefaultValues
  CopyOnInsert = TRUE
SPECIFICATION Spec
INVARIANT HofSorted
INVARIANT HofHonest
INVARIANT HofPrivate
PROPERTY BestMonotone
CHECK_DEADLOCK FALSE
"""


def child_run(cfg, hashseed):
    env = dict(os.environ)
    env["PYTHONHASHSEED"] = str(hashseed)
    p = subprocess.run([sys.executable, os.path.join(os.path.dirname(__file__), "c19_child.py"), json.dumps(cfg)],
                       env=env, capture_output=True, text=True, timeout=1800)
    for line in p.stdout.splitlines():
        if line.startswith("RESULT"):
            return json.loads(line[6:])
    return {"final": [["child-failed", p.stderr[-300:]]], "err": "child"}


def configs(ctx):
    rng = ctx.rng
    targets = [(3, [(0, 1), (1, 2)], 1), (3, [(0, 1), (1, 2), (0, 2)], 1), (4, [(0, 1), (1, 2), (2, 3)], 1),
               (4, [(0, 1), (1, 2), (2, 3), (3, 0)], 2)]
    out = []
    n = 6 if ctx.quick else 60
    for i in range(n):
        nq, edges, ne = targets[i % len(targets)] if not ctx.quick else targets[i % 3]
        solver = "hybrid" if i % 3 == 2 else "evolutionary"
        out.append({"solver": solver, "n": nq, "edges": edges, "n_emitter": ne,
                    "compiler": "dm" if (i % 4 == 1 and nq <= 3) else "stabilizer",
                    "n_hof": rng.choice([2, 3, 5]), "n_stop": rng.choice([4, 6]) if ctx.quick else rng.choice([6, 10, 15]),
                    "n_pop": rng.choice([4, 6]) if ctx.quick else rng.choice([6, 10]),
                    "k": 2, "selection": bool(i % 2), "adapt": bool((i // 2) % 2), "seed": rng.randrange(10000)})
    return out


def run(ctx):
    ctx.mc("MC_Evo", EVO_CFG.format(ngen=2 if ctx.quick else 3), tag="copies")
    traces = []
    cfgs = configs(ctx)
    from concurrent.futures import ThreadPoolExecutor
    with ThreadPoolExecutor(max_workers=12) as ex:
        futs = {}
        for i, cfg in enumerate(cfgs):
            futs[i] = [ex.submit(child_run, cfg, hs) for hs in ((1, 2) if ctx.quick else (1, 2, 3))]
        for i, cfg in enumerate(cfgs):
            first = child.run(cfg, full=True)
            twin = child.run(cfg, full=False)
            xs = [f.result() for f in futs[i]]
            events = first["events"] + [{"ev": "final", "err": first["err"], "result": first["result"],
                                         "cost_min": first["cost_min"], "final": first["final"], "twin": twin["final"],
                                         "twins_x": [x["final"] for x in xs]}]
            traces.append({"tid": i + 1, "meta": cfg, "solver": cfg["solver"], "events": events})
    ctx.judge("Trace_Evo", traces, label="J: real solver runs, per generation, with twins")
