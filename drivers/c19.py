"""C19 - random-search solvers are reproducible and report honest, ordered results.

M : MC_Evo - the generation loop over a heap of circuit objects (in-place mutation, hall of fame of copies, optional
    selection): HofSorted, HofHonest, HofPrivate, BestMonotone for all behaviours of a small instance; the variant that
    stores references instead of copies violates them (kept as documentation, not run here).
J : REAL solver runs (evolutionary / hybrid, stabilizer / density-matrix compiler, selection and adaptive probabilities
    on/off, hall-of-fame sizes) recorded per generation by wrapping update_logs; every hall-of-fame circuit is re-scored
    by a fresh compiler and metric.  Trace_Evo.tla: HofSorted, HofHonest, BestMonotone, HofFromKnown (object sharing
    between hall of fame and population is reported as information only),
    ResultIsBest, LogsMonotone, ReproducibleInProcess, ReproducibleAcrossProcesses (fresh interpreters, other hash seeds).
"""
from __future__ import annotations

import json
import os
import subprocess
import sys

import networkx as nx

from drivers import c19_child as child

EVO_CFG = """CONSTANTS
  NPop = 2
  NHof = 2
  NGen = {ngen}
  Values <- DefaultValues
  CopyOnInsert = TRUE
SPECIFICATION Spec
INVARIANT HofSorted
INVARIANT HofHonest
INVARIANT HofPrivate
PROPERTY BestMonotone
CHECK_DEADLOCK FALSE
"""


def child_run(cfg, hashseed):
    env = dict(os.environ)
    env["PYTHONHASHSEED"] = str(hashseed)
    p = subprocess.run([sys.executable, os.path.join(os.path.dirname(__file__), "c19_child.py"), json.dumps(cfg)],
                       env=env, capture_output=True, text=True, timeout=1800)
    for line in p.stdout.splitlines():
        if line.startswith("RESULT"):
            return json.loads(line[6:])
    return {"final": [["child-failed", p.stderr[-300:]]], "err": "child"}


def configs(ctx):
    rng = ctx.rng
    targets = [(3, [(0, 1), (1, 2)], 1), (3, [(0, 1), (1, 2), (0, 2)], 1), (4, [(0, 1), (1, 2), (2, 3)], 1),
               (4, [(0, 1), (1, 2), (2, 3), (3, 0)], 2)]
    out = []
    n = 6 if ctx.quick else 60
    for i in range(n):
        nq, edges, ne = targets[i % len(targets)] if not ctx.quick else targets[i % 3]
        solver = "hybrid" if i % 3 == 2 else "evolutionary"
        out.append({"solver": solver, "n": nq, "edges": edges, "n_emitter": ne,
                    "compiler": "dm" if (i % 4 == 1 and nq <= 3) else "stabilizer",
                    "n_hof": rng.choice([2, 3, 5]), "n_stop": rng.choice([4, 6]) if ctx.quick else rng.choice([6, 10, 15]),
                    "n_pop": rng.choice([4, 6]) if ctx.quick else rng.choice([6, 10]),
                    "k": 2, "selection": bool(i % 2), "adapt": bool((i // 2) % 2), "seed": rng.randrange(10000)})
    # the other forced setting of the compiler (measurement outcomes forced to 0)
    # (a 4-cycle with ONE emitter cannot be reached: the hall of fame keeps imperfect circuits whose score depends on the
    #  outcome of the emitter measurements, so a setting that is not honoured shows)
    out.append({"solver": "evolutionary", "n": 4, "edges": [(0, 1), (1, 2), (2, 3), (3, 0)], "n_emitter": 1,
                "compiler": "stabilizer", "n_hof": 5, "n_stop": 6 if ctx.quick else 12, "n_pop": 8 if ctx.quick else 15,
                "k": 2, "selection": False, "adapt": False, "seed": rng.randrange(10000), "md": 0})
    # warm start (an initial circuit handed to the solver), selection off and on
    for sel in (False, True):
        out.append({"solver": "evolutionary", "n": 3, "edges": [(0, 1), (1, 2)], "n_emitter": 1, "compiler": "stabilizer",
                    "n_hof": 3, "n_stop": 5 if ctx.quick else 10, "n_pop": 5 if ctx.quick else 10, "k": 2,
                    "selection": sel, "adapt": False, "seed": rng.randrange(10000), "warm": True})
    # the hybrid solver with the density-matrix compiler (the target is turned into a stabilizer inside the solver, the
    # compiled state is a density matrix): always one such run, also in the quick tier
    out.append({"solver": "hybrid", "n": 3, "edges": [(0, 1), (1, 2), (0, 2)], "n_emitter": 1, "compiler": "dm",
                "n_hof": 2, "n_stop": 6 if ctx.quick else 10, "n_pop": 6 if ctx.quick else 10, "k": 2,
                "selection": True, "adapt": False, "seed": 9136})
    # a population of a few dozen circuits (the size the solver's defaults and the examples use), both solvers
    big = [("hybrid", 3, [(0, 1), (1, 2)], 1, 30), ("hybrid", 4, [(0, 1), (1, 2), (2, 3)], 1, 40),
           ("hybrid", 4, [(0, 1), (1, 2), (1, 3), (3, 2), (0, 2)], 2, 30), ("hybrid", 3, [(0, 1), (1, 2)], 1, 60),
           ("hybrid", 3, [(0, 1), (1, 2), (0, 2)], 1, 50), ("hybrid", 4, [(0, 1), (1, 2), (2, 3)], 1, 60),
           ("evolutionary", 3, [(0, 1), (1, 2)], 1, 30)]
    for solver, nq, edges, ne, n_pop in big * 2 if ctx.quick else big * 6:
        out.append({"solver": solver, "n": nq, "edges": edges, "n_emitter": ne, "compiler": "stabilizer",
                    "n_hof": rng.choice([8, 12, 20]), "n_stop": 4 if ctx.quick else 8, "n_pop": n_pop, "k": 2,
                    "selection": True, "adapt": False, "seed": rng.randrange(10000)})
    return out


def hof_replay_traces(ctx, tid0):
    """update_hof of the real solver class driven directly with synthetic (score, circuit) populations, including near
    ties (scores 1 - 2^-k from k = 6 on are within 1 % of each other, 0.5 and 0.5 + 1e-9 are 'equal' for numpy.isclose)."""
    import numpy as np
    from graphiq.circuit.circuit_dag import CircuitDAG
    from graphiq.circuit import ops
    from graphiq.metrics import Infidelity
    from graphiq.solvers.evolutionary_solver import EvolutionarySolver, EvolutionarySolverSetting
    from engine import circuits as cz
    rng = ctx.rng
    g = nx.path_graph(2)
    target = cz.target_state(g, "s")
    pool = [0.0, 0.25, 0.5, 0.5 + 1e-9, 0.75, 0.96875, 0.984375, 0.9921875, 0.99609375, 1.0, 100 / 101, 0.99, 0.995]

    def circuit_of(k):
        c = CircuitDAG(n_emitter=1, n_photon=1, n_classical=1)
        for _ in range(k):
            c.add(ops.Hadamard(register=0, reg_type="e"))
        return c

    def obs(hof):
        return [{"score": child.INF, "size": 0} if c is None else {"score": child.fix(s), "size": len(c.dag.nodes)} for s, c in hof]
    traces = []
    for t in range(12 if ctx.quick else 200):
        n_hof = rng.choice([2, 3, 5])
        events = []
        try:
            solver = EvolutionarySolver(target=target, metric=Infidelity(target), compiler=child.make_compiler("stabilizer"),
                                        n_emitter=1, n_photon=2,
                                        solver_setting=EvolutionarySolverSetting(n_hof=n_hof, n_pop=4, n_stop=2))
            solver.hof = [(np.inf, None) for _ in range(n_hof)]
            for _ in range(rng.randint(2, 5)):
                pop = [(rng.choice(pool), circuit_of(rng.randint(0, 4))) for _ in range(rng.randint(1, 5))]
                before = obs(solver.hof)
                e = {"ev": "update_hof", "err": "", "before": before,
                     "pop": [{"score": child.fix(s), "size": len(c.dag.nodes)} for s, c in pop], "after": []}
                try:
                    solver.update_hof(pop)
                    e["after"] = obs(solver.hof)
                except Exception as ex:
                    e["err"] = type(ex).__name__
                events.append(e)
        except Exception as ex:
            events.append({"ev": "update_hof", "err": "Setup:" + type(ex).__name__, "before": [], "pop": [], "after": []})
        traces.append({"tid": tid0 + t + 1, "solver": "update_hof", "meta": {"kind": "update_hof replay", "n_hof": n_hof},
                       "events": events})
    return traces


def run(ctx):
    ctx.mc("MC_Evo", EVO_CFG.format(ngen=2 if ctx.quick else 3), tag="copies", coverage=True)
    traces = []
    cfgs = configs(ctx)
    from concurrent.futures import ThreadPoolExecutor
    with ThreadPoolExecutor(max_workers=12) as ex:
        futs = {}
        for i, cfg in enumerate(cfgs):
            futs[i] = [ex.submit(child_run, cfg, hs) for hs in ((1, 2) if ctx.quick else (1, 2, 3))]
        for i, cfg in enumerate(cfgs):
            first = child.run(cfg, full=True)
            twin = child.run(cfg, full=False)
            xs = [f.result() for f in futs[i]]
            events = first["events"] + [{"ev": "final", "err": first["err"], "result": first["result"],
                                         "cost_min": first["cost_min"], "final": first["final"], "twin": twin["final"],
                                         "twins_x": [x["final"] for x in xs]}]
            traces.append({"tid": i + 1, "meta": cfg, "solver": cfg["solver"], "events": events})
    ctx.judge("Trace_Evo", traces, label="J: real solver runs, per generation, with twins")
    hof = hof_replay_traces(ctx, len(traces))
    ctx.judge("Trace_Evo", hof, label="G: update_hof driven directly with synthetic populations (near ties included)")
    ctx.extra["update_hof_calls"] = sum(len(t["events"]) for t in hof)
