"""X03 (extension) - the register table (graphiq.circuit.register.Register, and a CircuitDAG's register interface) as a
state machine: MC_Registers explores all call histories of length <= 3 (4) (add / expand / next-index queries, valid and
invalid arguments, single- and multi-qubit tables); every generated history is replayed into the real Register class and
the recorded trace validated by Trace_Registers; random longer histories also go through CircuitDAG.add_*_register /
expand_*_register / next_* (single-qubit tables only - the circuit class supports nothing else).
"""
from __future__ import annotations

import json

CFG = """CONSTANTS
  MaxLen = {k}
  MaxSize = 3
SPECIFICATION Spec
INVARIANT WellFormedInv
INVARIANT Dump
PROPERTY Monotone
CHECK_DEADLOCK FALSE
"""


def replay_register(multi, calls):
    from graphiq.circuit.register import Register
    r = Register({"e": [], "p": [], "c": []}, is_multi_qubit=multi)
    events = []
    for c in calls:
        e = {"a": c["a"], "t": c["t"], "k": c["k"], "size": c["size"], "err": "", "ret": 0}
        try:
            if c["a"] == "add":
                e["ret"] = int(r.add_register(c["t"], c["size"]))
            elif c["a"] == "expand":
                r.expand_register(c["t"], c["k"], c["size"])
            else:
                e["ret"] = int(r.next_register(c["t"], c["k"]))
        except Exception as ex:
            e["err"] = type(ex).__name__
        reg = r.register
        e["obs"] = {"e": list(reg["e"]), "p": list(reg["p"]), "c": list(reg["c"]), "nq": int(r.n_quantum)}
        events.append(e)
    return events


def replay_circuit(calls, n_e, n_p, n_c):
    from graphiq.circuit.circuit_dag import CircuitDAG
    c0 = CircuitDAG(n_emitter=n_e, n_photon=n_p, n_classical=n_c)
    events = []
    for c in calls:
        e = {"a": c["a"], "t": c["t"], "k": c["k"], "size": c["size"], "err": "", "ret": 0}
        try:
            if c["a"] == "add":
                {"e": c0.add_emitter_register, "p": c0.add_photonic_register, "c": c0.add_classical_register}[c["t"]](c["size"])
            elif c["a"] == "expand":
                {"e": c0.expand_emitter_register, "p": c0.expand_photonic_register,
                 "c": c0.expand_classical_register}[c["t"]](c["k"], c["size"])
            else:
                e["ret"] = int({"e": c0.next_emitter, "p": c0.next_photon, "c": c0.next_cbit}[c["t"]](c["k"]))
        except Exception as ex:
            e["err"] = type(ex).__name__
        reg = c0.register
        e["obs"] = {"e": list(reg["e"]), "p": list(reg["p"]), "c": list(reg["c"]), "nq": int(c0.n_quantum)}
        events.append(e)
    return events


def run(ctx):
    rng = ctx.rng
    r = ctx.mc("MC_Registers", CFG.format(k=3 if ctx.quick else 4), tag="hist", workers=1)
    hists = [json.loads(p[1]) for p in r.prints if p[0] == "HIST"]
    ctx.extra["tlc_histories_generated"] = len(hists)
    cap = 8000 if ctx.quick else 80000
    if len(hists) > cap:
        hists = rng.sample(hists, cap)
    traces = []
    empty = {"e": [], "p": [], "c": []}
    for i, h in enumerate(hists):
        traces.append({"tid": i + 1, "meta": {"kind": "tlc-history"}, "multi": bool(h["multi"]), "init": empty,
                       "returns_index": True, "events": replay_register(bool(h["multi"]), h["calls"])})
    for j in range(60 if ctx.quick else 3000):
        n_e, n_p, n_c = rng.randint(0, 2), rng.randint(0, 2), rng.randint(0, 2)
        calls = []
        for _ in range(rng.randint(5, 15)):
            a = rng.choice(["add", "add", "expand", "next"])
            calls.append({"a": a, "t": rng.choice(["e", "p", "c"]), "k": rng.randint(0, 3) if a != "add" else 0,
                          "size": rng.choice([1, 1, 1, 2, 0]) if a != "next" else 0})
        traces.append({"tid": len(hists) + j + 1, "meta": {"kind": "circuit-interface", "n": [n_e, n_p, n_c]}, "multi": False,
                       "init": {"e": [1] * n_e, "p": [1] * n_p, "c": [1] * n_c}, "returns_index": False,
                       "events": replay_circuit(calls, n_e, n_p, n_c)})
    ctx.judge("Trace_Registers", traces, label="G/J: TLC-generated and random call histories on the real register table")
    ctx.assumptions.append("extension check: not one of the listed properties")
