"""X05 (extension) - the stabilizer mixture object (graphiq.backends.stabilizer.state.MixedStabilizer) driven directly
with MULTI-branch mixtures: random dyadic weights over sampled 1-4 qubit stabilizer states (duplicates included), random
sequences of apply_hadamard / phase / phase_dagger / sigmax / sigmay / sigmaz / cnot / cz and reduce(); the whole mixture
and the reported total probability are logged after every call and judged by Trace_Mix.tla against Ensemble.tla.
"""
from __future__ import annotations

from fractions import Fraction

from engine import project as pj
from engine import stabgen as sg

ONE = {"Hadamard": "apply_hadamard", "Phase": "apply_phase", "PhaseDagger": "apply_phase_dagger", "SigmaX": "apply_sigmax",
       "SigmaY": "apply_sigmay", "SigmaZ": "apply_sigmaz"}
TWO = {"CNOT": "apply_cnot", "CZ": "apply_cz"}


def mix_obs(ms):
    br = []
    for w, t in ms.mixture:
        f = Fraction(float(w)).limit_denominator(1 << 16)
        br.append({"w": [f.numerator, f.denominator], "tab": pj.tab_obs(t)})
    return {"branches": br}


def history(tid, rng, steps):
    from graphiq.backends.stabilizer.state import MixedStabilizer
    n = rng.randint(1, 4)
    k = rng.randint(2, 4)
    tabs = []
    for _ in range(k):
        rows = sg.random_state_rows(rng, n)
        tabs.append(pj.rows_to_tableau(sg.random_destabilizers(rng, rows), rows))
    if rng.random() < 0.5:
        tabs.append(tabs[0].copy())                      # a duplicate branch: reduce() has something to merge
        if rng.random() < 0.5:
            tabs.insert(1, tabs[0].copy())
    raw = [rng.randint(1, 4) for _ in tabs]
    total = sum(raw) * rng.choice([1, 2])                # total weight 1 or 1/2 (sub-normalised mixtures exist after loss)
    ms = MixedStabilizer([(r / total, t) for r, t in zip(raw, tabs)])
    init = mix_obs(ms)
    events = []
    for _ in range(steps):
        r = rng.random()
        e = {"ev": "gate", "kind": "", "q": [], "err": "", "prob": [0, 1], "res": False, "other": {"branches": []}}
        try:
            if r < 0.12:
                # == against a copy with the branches in another order, now and then with one branch changed
                e["ev"] = "eq"
                branches = [(w, t.copy()) for w, t in ms.mixture]
                rng.shuffle(branches)
                if rng.random() < 0.4:
                    import graphiq.backends.stabilizer.functions.transformation as tr
                    j = rng.randrange(len(branches))
                    branches[j] = (branches[j][0], tr.z_gate(branches[j][1], rng.randrange(n)))
                other = MixedStabilizer(branches)
                e["other"] = mix_obs(other)
                e["res"] = bool(ms == other)
            elif r < 0.22:
                e["ev"] = "reduce"
                ms.reduce()
            elif r < 0.7 or n == 1:
                e["kind"] = rng.choice(list(ONE))
                q = rng.randrange(n)
                e["q"] = [q + 1]
                getattr(ms, ONE[e["kind"]])(q)
            else:
                e["kind"] = rng.choice(list(TWO))
                c, t = rng.sample(range(n), 2)
                e["q"] = [c + 1, t + 1]
                getattr(ms, TWO[e["kind"]])(c, t)
            f = Fraction(float(ms.probability)).limit_denominator(1 << 16)
            e["prob"] = [f.numerator, f.denominator]
        except Exception as ex:
            e["err"] = type(ex).__name__
        e["obs"] = mix_obs(ms)
        events.append(e)
    return {"tid": tid, "meta": {"n": n, "branches": len(tabs)}, "init": init, "events": events}


def run(ctx):
    traces = [history(i + 1, ctx.rng, ctx.rng.randint(4, 12)) for i in range(150 if ctx.quick else 4000)]
    ctx.judge("Trace_Mix", traces, label="J: call histories on real multi-branch MixedStabilizer objects")
    ctx.assumptions.append("extension check: not one of the listed properties; measurement / reset of multi-branch "
                           "mixtures (C06-K1) are excluded; weights are dyadic")
