"""X01 (extension, beyond the listed properties) - shipped benchmark circuits prepare the state they are shipped with;
the named graph families have exactly their documented structure and emission order.

M/J : Trace_Bench - every Clifford benchmark circuit of graphiq/benchmarks/circuits.py is projected and EXECUTED BY TLC
      over every measurement-outcome branch; the qubits the shipped ideal state speaks about must carry it exactly
      (Pauli vector), every other qubit ends in |0>.
J   : Trace_Families - every graph-family constructor over a grid of parameters; TLC compares vertex count and edge set
      with the definition in GraphFamilies.tla.
"""
from __future__ import annotations

import itertools

import numpy as np

from engine import circuits as cz
from engine import project as pj


def bench_records():
    import graphiq.benchmarks.circuits as bc
    recs = []
    for name in ("bell_state_circuit", "ghz3_state_circuit", "ghz4_state_circuit", "linear_cluster_3qubit_circuit",
                 "linear_cluster_4qubit_circuit"):
        dummy = {"nq": 1, "nc": 0, "np": 1, "ne": 0, "ops": [], "wires": {}}
        try:
            circuit, ideal = getattr(bc, name)()
            circ, nodes = cz.project_circuit(circuit)
            order = cz.sequence_order(circuit, nodes)
            rho = np.asarray(ideal.rep_data.data)
            m = int(round(np.log2(rho.shape[0])))
            # which qubits the ideal state describes: the photons if the circuit has photons, else the emitters
            tq = list(range(1, circ["np"] + 1)) if circ["np"] else list(range(1, circ["ne"] + 1))
            pv = pj.pv_obs(rho, m)
            err = "" if (not pv["bad"] and m == len(tq)) else "IdealStateNotExact:" + (pv["bad"] or f"{m} qubits for {len(tq)}")
            recs.append({"name": name, "err": err, "circ": circ, "order": order, "tq": tq, "vec": pv["vec"]})
        except Exception as ex:
            recs.append({"name": name, "err": type(ex).__name__, "circ": dummy, "order": [], "tq": [1], "vec": []})
    return recs


def family_events(quick):
    import graphiq.benchmarks.graph_states as gs

    def call(fam, args, f):
        try:
            g = f()
            g = g.data if hasattr(g, "data") else g
            o = pj.graph_obs(g)
            o["err"] = ""
        except Exception as ex:
            o = {"err": type(ex).__name__, "n": 0, "edges": []}
        return {"fam": fam, "args": list(args), "out": o}

    evs = []
    hi = 7 if quick else 12
    for n in range(2, hi + 1):
        evs.append(call("path", [n], lambda: gs.linear_cluster_state(n)))
        evs.append(call("star", [n], lambda: gs.star_graph_state(n)))
    for m in range(1, 5 if quick else 8):
        evs.append(call("repeater", [m], lambda: gs.repeater_graph_states(m)))
        evs.append(call("birepeater", [m], lambda: gs.bi_repeater_graph_states(m)))
    sizes = (1, 2, 3) if quick else (1, 2, 3, 4)
    for k in (2, 3) if quick else (2, 3, 4):
        for cols in itertools.product(sizes, repeat=k):
            evs.append(call("crazy", list(cols), lambda: gs.crazy(list(cols))))
    for r, c in itertools.product(range(1, 4 if quick else 6), repeat=2):
        evs.append(call("twod", [r, c], lambda: gs.two_d_cluster((r, c))))
    for r, c, d in itertools.product(range(1, 3 if quick else 4), repeat=3):
        evs.append(call("threed", [r, c, d], lambda: gs.three_d_cluster((r, c, d))))
    for k in (1, 2, 3):
        for b in itertools.product((1, 2, 3), repeat=k):
            if np.prod(b) <= (12 if quick else 27):
                evs.append(call("tree", list(b), lambda: gs.branching_tree(list(b))))
    return evs


def run(ctx):
    recs = bench_records()
    for i, r in enumerate(recs):
        r["tid"] = i + 1
        r["meta"] = {"name": r["name"]}
    ctx.judge("Trace_Bench", recs, label="M: benchmark circuits executed by TLC over all outcome branches", mode="forall",
              shards=len(recs))
    evs = family_events(ctx.quick)
    traces = [{"tid": i // 40 + 1, "meta": {"kind": "families"}, "events": evs[i:i + 40]} for i in range(0, len(evs), 40)]
    ctx.judge("Trace_Families", traces, label="J: graph-family constructors against GraphFamilies.tla")
    ctx.extra["benchmark_circuits"] = [r["name"] for r in recs]
    ctx.extra["family_calls"] = len(evs)
    ctx.assumptions.append("extension check: not one of the listed properties; the non-Clifford benchmark circuits "
                           "(variational / strongly entangling layers) are outside the stabilizer specification")
