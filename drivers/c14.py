"""C14 - exporting a circuit and importing it back yields the same circuit.

J : circuits = the programs TLC enumerated for C01 (all programs of <= 2 operations on 1e+1p+1c) + random circuits with
    wrappers from all 24 library elements, P-dagger, identities, every classically controlled form and several
    classical registers.  For each circuit: to_openqasm() twice, the text parsed by an independent tokenizer into
    Qasm.tla syntax, from_openqasm(text), to_json() twice, from_json(dict).  Trace_Qasm.tla: QasmDenotes (the text under
    STANDARD openQASM semantics, executed by the spec over all outcome branches, has the circuit's semantics),
    Qasm/JsonRoundTrip (same registers, same expanded operation sequence per quantum wire), attributes agree with
    wires, CompiledSame, Deterministic.
"""
from __future__ import annotations

import json
import warnings

from engine import circuits as cz
from engine import qasm as qz
from drivers import c01


def attr_q(op, n_p):
    kind = type(op).__name__
    try:
        if hasattr(op, "control") and hasattr(op, "target"):
            return [cz.qindex(op.control, op.control_type, n_p), cz.qindex(op.target, op.target_type, n_p)]
        return [cz.qindex(op.register, op.reg_type, n_p)]
    except Exception:
        return []


def rec_of(circuit):
    c, nodes = cz.project_circuit(circuit)
    c["order"] = cz.sequence_order(circuit, nodes)
    for k, n in enumerate(nodes):
        c["ops"][k]["attr_q"] = attr_q(circuit.dag.nodes[n]["op"], circuit.n_photons)
    c["err"] = ""
    return c


def err_rec(ex):
    return {"err": type(ex).__name__, "nq": 0, "nc": 0, "np": 0, "ne": 0, "ops": [], "wires": {}, "order": []}


def trace_for(tid, n_e, n_p, n_c, prog, kind, rng=None):
    from graphiq.circuit.circuit_dag import CircuitDAG
    circuit = cz.build_circuit(n_e, n_p, n_c, prog)
    edit = ""
    if rng is not None:
        # the circuit has been exported (and queried) once BEFORE it is edited: whatever the object remembers from that
        # export must not leak into the export after the edit
        try:
            circuit.to_openqasm()
            circuit.to_json()
            circuit.sequence()
        except Exception:
            pass
        edit = cz.edit_circuit(circuit, rng)
    src = rec_of(circuit)
    t = {"tid": tid, "meta": {"n_e": n_e, "n_p": n_p, "n_c": n_c, "program": prog, "kind": kind, "edit": edit}, "src": src,
         "wide": n_e + n_p > 5}
    with warnings.catch_warnings():
        warnings.simplefilter("ignore")
        try:
            text = circuit.to_openqasm()
            text2 = circuit.to_openqasm()
            t["qasm_again"] = (text == text2)
            t["qasm"] = qz.parse(text)
            t["meta"]["qasm_text"] = text
        except Exception as ex:
            text = None
            t["qasm_again"] = True
            t["qasm"] = {"err": "Export:" + type(ex).__name__, "qidx": {}, "cidx": {}, "defs": {}, "prog": []}
        try:
            if text is None:
                raise RuntimeError("no text")
            t["from_qasm"] = rec_of(CircuitDAG.from_openqasm(text))
        except Exception as ex:
            t["from_qasm"] = err_rec(ex)
        try:
            d = circuit.to_json()
            d2 = circuit.to_json()
            t["json_again"] = (json.dumps(d, sort_keys=True, default=str) == json.dumps(d2, sort_keys=True, default=str))
            d = json.loads(json.dumps(d))          # what a file round trip gives back
            t["from_json"] = rec_of(CircuitDAG.from_json(d))
        except Exception as ex:
            t["json_again"] = True
            t["from_json"] = err_rec(ex)
    return t


def run(ctx):
    rng = ctx.rng
    traces, tid = [], 0
    progs = c01.enumerate_programs(ctx, 1, 1, 1, 2)
    if ctx.quick:
        progs = progs[::3]
    for p in progs:
        tid += 1
        traces.append(trace_for(tid, 1, 1, 1, p, "enumerated"))
    wr = cz.library_wrappers()
    for _ in range(120 if ctx.quick else 4000):
        n_e, n_p = rng.choice([(1, 1), (2, 1), (1, 2), (2, 2), (3, 1)])
        n_c = rng.choice([1, 2, 3])
        prog = cz.random_program(rng, n_e, n_p, n_c, rng.randint(1, 9), wrappers=wr, p_measure=0.3)
        tid += 1
        traces.append(trace_for(tid, n_e, n_p, n_c, prog, "random", rng if rng.random() < 0.4 else None))
    # wide circuits: 10+ registers of one type (multi-digit register names), operations biased to the high indices
    for _ in range(30 if ctx.quick else 400):
        n_e, n_p = rng.choice([(1, 13), (12, 2), (2, 11), (11, 11)])
        n_c = rng.choice([1, 12])
        regs = [["e", i] for i in range(n_e)] + [["p", i] for i in range(n_p)]
        hi = [r for r in regs if r[1] >= 9] or regs
        prog = []
        for _k in range(rng.randint(3, 10)):
            r = rng.random()
            a = rng.choice(hi) if rng.random() < 0.7 else rng.choice(regs)
            b = rng.choice([x for x in (hi if rng.random() < 0.6 else regs) if x != a] or [x for x in regs if x != a])
            c = rng.randrange(n_c) if rng.random() < 0.4 else n_c - 1
            if r < 0.3:
                prog.append({"k": rng.choice(cz.ONEQ), "r": [a], "c": None})
            elif r < 0.4:
                prog.append({"k": "OneQubitGateWrapper", "r": [a], "c": None, "w": rng.choice(wr)})
            elif r < 0.6:
                prog.append({"k": rng.choice(cz.TWOQ), "r": [a, b], "c": None})
            elif r < 0.75:
                prog.append({"k": "MeasurementZ", "r": [a], "c": c})
            else:
                prog.append({"k": rng.choice(cz.CCTRL), "r": [a, b], "c": c})
        tid += 1
        traces.append(trace_for(tid, n_e, n_p, n_c, prog, "wide"))
    ctx.judge("Trace_Qasm", traces, label="J: openQASM / JSON export, independent parse, re-import", xmx="4g")
    ctx.assumptions.append("the openQASM tokenizer (engine/qasm.py) is trusted; text fidelity beyond statement structure is not a spec matter")
