"""C20 - the single-qubit Clifford library is complete, closed and consistently ordered.

M : MC_Cliff1 - closure under H, P from the identity reaches exactly 24 signed-axis maps; group axioms.
J : (a) the library's 24 gate lists with the matrices the library assigns to them (projected to signed-axis maps by
        conjugating X and Z): MatrixOK (list = matrix product, last listed acts first), Distinct24, Closed;
    (b) simplify_local_clifford on all 24 x 24 concatenations and all words up to length 4 (6 thorough) over
        {I,H,P,X,Y,Z}: returns a member equal to the product; non-Clifford / non-unitary matrices are rejected;
    (c) order convention in BOTH backends: H(e0); CNOT(e0,p0); W(reg) for every library wrapper on either register
        type, compiled by both real compilers and judged by Trace_CircuitRun (the final 2-qubit group identifies the
        Clifford uniquely).
"""
from __future__ import annotations

import itertools

import numpy as np

from engine import circuits as cz

PAULI = {1: np.array([[0, 1], [1, 0]], dtype=complex), 2: np.array([[1, 0], [0, -1]], dtype=complex),
         3: np.array([[0, -1j], [1j, 0]], dtype=complex)}


def axis_map(u):
    """U -> images of X and Z under conjugation as (sign bit, letter); None if not a Clifford."""
    out = {}
    for name, a in (("x", 1), ("z", 2)):
        m = u @ PAULI[a] @ u.conj().T
        found = None
        for b in (1, 2, 3):
            for s in (0, 1):
                if np.allclose(m, (-1) ** s * PAULI[b], atol=1e-9):
                    found = (s, b)
        if found is None:
            return None
        out[name + "s"], out[name + "a"] = found
    return out


def run(ctx):
    from graphiq.circuit import ops
    rng = ctx.rng
    ctx.mc("MC_Cliff1", "SPECIFICATION Spec\nVIEW View\nCONSTRAINT Bound\nINVARIANT WordAgrees\nINVARIANT Valid\n"
                        "INVARIANT Axioms\n", tag="closure", workers=1, expect_distinct=24)
    lib = [list(w) for w in ops.one_qubit_cliffords()]
    names = [[g.__name__ for g in w] for w in lib]
    events = []
    try:
        mats = list(ops.local_cliffords_name_to_matrix_map())
        maps = []
        for w, m2 in zip(lib, mats):
            m = ops.local_clifford_to_matrix_map(w)
            am = axis_map(m)
            am2 = axis_map(np.asarray(m2))
            if am is None or am2 is None or am != am2:
                am = {"xs": 0, "xa": 0, "zs": 0, "za": 0}
            maps.append(am)
        events.append({"fn": "lib", "err": "", "lists": names, "maps": maps})
    except Exception as ex:
        events.append({"fn": "lib", "err": type(ex).__name__, "lists": [], "maps": []})
    # (b) simplify
    base = ["Identity", "Hadamard", "Phase", "SigmaX", "SigmaY", "SigmaZ"]
    words = [a + b for a in names for b in names]
    maxlen = 4 if ctx.quick else 6
    for k in range(1, maxlen + 1):
        ws = list(itertools.product(base, repeat=k))
        if k > 4:
            ws = rng.sample(ws, 4000)
        words += [list(w) for w in ws]
    words += [["PhaseDagger"], ["PhaseDagger", "Hadamard", "PhaseDagger"]] if False else []
    for w in words:
        try:
            out = ops.simplify_local_clifford([getattr(ops, g) for g in w])
            on = [g.__name__ for g in out]
            idx = (names.index(on) + 1) if on in names else 0
            events.append({"fn": "simplify", "word": w, "out": {"err": "", "list": on, "index": idx}})
        except Exception as ex:
            events.append({"fn": "simplify", "word": w, "out": {"err": type(ex).__name__, "list": [], "index": 0}})
    t_gate = np.array([[1, 0], [0, np.exp(1j * np.pi / 4)]])
    bads = [t_gate, np.array([[1, 0], [0, 0.5]]), np.array([[1, 1], [1, 1]]) / 2, 2 * np.eye(2) @ t_gate]
    # near misses of every library member M (the look-ups above have been made, so anything the library remembers about
    # them is in place): scaled, sheared and rank-one matrices whose overlap tr(M^dagger V) with M still has modulus 2,
    # and unitaries a fraction of a degree away from M
    H_ = np.array([[1, 1], [1, -1]]) / np.sqrt(2)
    S_ = np.diag([1, 1j])
    GM = {"Identity": np.eye(2), "Hadamard": H_, "Phase": S_, "PhaseDagger": S_.conj().T,
          "SigmaX": np.array([[0, 1], [1, 0]]), "SigmaY": np.array([[0, -1j], [1j, 0]]), "SigmaZ": np.diag([1, -1])}
    for w in names:
        m = np.eye(2, dtype=complex)
        for g in w:
            m = m @ GM[g]
        for v in (2 * m, m @ np.array([[1, 1], [0, 1]]), m @ np.diag([2, 0]), np.sqrt(2) * H_ @ m if w == names[0] else 3 * m,
                  m @ np.diag([1, np.exp(1j * 0.006)]), m @ np.diag([1, np.exp(1j * 0.02)])):
            bads.append(np.asarray(v, dtype=complex))
    for bad in bads:
        try:
            ops.find_local_clifford_by_matrix(bad)
            events.append({"fn": "reject", "raised": False})
        except ValueError:
            events.append({"fn": "reject", "raised": True})
        except Exception:
            events.append({"fn": "reject", "raised": True})
    traces = [{"tid": i + 1, "meta": {"kind": "library"}, "events": events[i * 400:(i + 1) * 400]}
              for i in range((len(events) + 399) // 400)]
    ctx.extra["simplify_words"] = len(words)
    ctx.judge("Trace_Cliff", traces, label="J: Clifford library, simplification, rejection")
    # (c) order convention in both backends
    runs, tid = [], 1000
    for reg in (["p", 0], ["e", 0]):
        for w in names:
            # on the Choi state as prepared (generating rows XX, ZZ) and after a Phase gate on the wrapped register (rows
            # with a Y there): a gate rule that is only wrong on some Pauli letters needs the right rows to show
            for pre in ([], [{"k": "Phase", "r": [reg], "c": None}]):
                prog = [{"k": "Hadamard", "r": [["e", 0]], "c": None}, {"k": "CNOT", "r": [["e", 0], ["p", 0]], "c": None}] + pre + \
                       [{"k": "OneQubitGateWrapper", "r": [reg], "c": None, "w": w}]
                circuit = cz.build_circuit(1, 1, 0, prog)
                t, tid = cz.compile_traces(circuit, tid, rng, settings=(1,),
                                           meta={"kind": "order", "wrapper": w, "reg": reg, "phase_first": bool(pre)})
                runs += t
    # the same wrappers on three-qubit layouts that differ only in how the qubits split into emitters and photons
    # (1e + 2p, 2e + 1p), alternating, through the long-lived compiler objects: the position of "emitter 0" in the state
    # depends on the split, not only on the total
    k = 0
    for reg in (["e", 0], ["p", 0]):
        for w in names if not ctx.quick else names[::2]:
            for n_e, n_p in ((1, 2), (2, 1)):
                k += 1
                pre = [{"k": "Phase", "r": [reg], "c": None}] if k % 3 == 0 else []
                prog = [{"k": "Hadamard", "r": [["e", 0]], "c": None}, {"k": "CNOT", "r": [["e", 0], ["p", 0]], "c": None}] + pre + \
                       [{"k": "OneQubitGateWrapper", "r": [reg], "c": None, "w": w}]
                circuit = cz.build_circuit(n_e, n_p, 0, prog)
                t, tid = cz.compile_traces(circuit, tid, rng, settings=(1,),
                                           meta={"kind": "order-split-layout", "wrapper": w, "reg": reg, "n_e": n_e, "n_p": n_p})
                runs += t
    # one long-lived circuit per register type whose wrapper is exchanged in place (replace_op) and which is compiled
    # after every exchange - as the solvers do when they merge gates into an existing wrapper
    for reg in (["p", 0], ["e", 0]):
        prog = [{"k": "Hadamard", "r": [["e", 0]], "c": None}, {"k": "CNOT", "r": [["e", 0], ["p", 0]], "c": None},
                {"k": "Phase", "r": [reg], "c": None}, {"k": "OneQubitGateWrapper", "r": [reg], "c": None, "w": names[0]}]
        circuit = cz.build_circuit(1, 1, 0, prog)
        node = max(n_ for n_ in circuit.dag.nodes if isinstance(n_, int))
        for w in names[1:] if not ctx.quick else names[1::2]:
            t, tid = cz.compile_traces(circuit, tid, rng, settings=(1,), backends=("stabilizer",),
                                       meta={"kind": "order-after-replace", "reg": reg})
            runs += t
            circuit.sequence(unwrapped=True)          # the long-lived object itself is read before it is edited
            circuit.replace_op(node, cz.build_op({"k": "OneQubitGateWrapper", "r": [reg], "c": None, "w": w}))
        t, tid = cz.compile_traces(circuit, tid, rng, settings=(1,), meta={"kind": "order-after-replace", "reg": reg})
        runs += t
    ctx.judge("Trace_CircuitRun", runs, label="J: wrapper order convention in both backends (Choi state)")
