"""C02 - the time-reversed solver returns a circuit that generates the target exactly.

For every target graph the REAL solver is run; the returned circuit is projected to wires and
  M : Trace_CircuitAll - TLC executes it over EVERY combination of measurement outcomes: photons = |G>, emitters |0>;
      the order sequence() returned is a linearisation; reported score 0;
  J : Trace_CircuitRun - the same circuit compiled by both real compilers under forced-0 / forced-1 / random outcomes
      must follow textbook semantics step by step (so "simulated by either backend" = the spec run).
Targets: all labelled graphs n <= 4 (quick) / n <= 5 + samples of 6, 7 (thorough), as graph / stabilizer / dm state.
"""
from __future__ import annotations

import networkx as nx

from engine import circuits as cz
from engine import project as pj
from engine import stabgen as sg


def shuffled_insertion(rng, g):
    """the same state handed over as a graph whose nodes were INSERTED in another order than their labels: the library's
    convention is qubit k = k-th inserted node, so the labels are permuted along (position view = g)."""
    n = g.number_of_nodes()
    order = list(range(n))
    while n >= 2 and order == list(range(n)):
        rng.shuffle(order)
    h = nx.Graph()
    h.add_nodes_from(order)
    h.add_edges_from((order[a], order[b]) for a, b in g.edges())
    return h


def signed_gauge_target(rng, graph):
    """|G> as a stabilizer QuantumState whose generators are signed PRODUCTS of the textbook ones (what a stabilizer
    simulation hands out): the same state, another generating set, at least one minus sign when one can be found"""
    from graphiq.state import QuantumState
    n = graph.number_of_nodes()
    base = sg.graph_generators(graph, n)
    rows = base
    for _ in range(40):
        rows = sg.random_regauge(rng, base, steps=4 * n)
        if any(r["s"] for r in rows):
            break
    return QuantumState(pj.rows_to_tableau(sg.random_destabilizers(rng, rows), rows), rep_type="s")


def solve(graph, rep, backend, setting=1, again=False, view=None, target=None):
    """-> (record for Trace_CircuitAll, circuit or None)"""
    from graphiq.backends.stabilizer.compiler import StabilizerCompiler
    from graphiq.backends.density_matrix.compiler import DensityMatrixCompiler
    from graphiq.metrics import Infidelity
    from graphiq.solvers.time_reversed_solver import TimeReversedSolver
    n = graph.number_of_nodes()
    tg = {"n": n, "edges": cz.graph_edges1(view if view is not None else graph), "map": []}
    dummy = {"nq": n, "nc": 0, "np": n, "ne": 0, "ops": [], "wires": {}}
    try:
        target = cz.target_state(graph, rep) if target is None else target
        compiler = StabilizerCompiler() if backend == "stabilizer" else DensityMatrixCompiler()
        compiler.measurement_determinism = "probabilistic" if setting == 2 else setting
        solver = TimeReversedSolver(target=target, metric=Infidelity(target), compiler=compiler)
        solver.solve()
        if again:
            solver.solve()          # the same solver object asked again: the second answer is the one that is judged
        score, circuit = solver.result
        circ, nodes = cz.project_circuit(circuit)
        order = cz.sequence_order(circuit, nodes)
        sc = pj.rat(score)
        rec = {"err": "", "circ": circ, "order": order, "target": tg,
               "score": [sc["n"], sc["d"]] if sc else [1, 0], "check_shape": True, "check_emitters": True}
        return rec, circuit
    except Exception as ex:
        return {"err": type(ex).__name__, "circ": dummy, "order": [], "target": tg, "score": [0, 1],
                "check_shape": True, "check_emitters": True}, None


def graphs_for(ctx):
    gs = []
    for n in (1, 2, 3, 4):
        gs += list(cz.all_graphs(n))
    # disjoint unions with contiguous blocks (the emitters are all released mid-way and reused): blocks of 2..4 vertices
    conn = {k: [g for g in cz.all_graphs(k) if nx.is_connected(g)] for k in (2, 3, 4)}
    unions = [(a, b) for ka, kb in ((2, 3), (3, 2), (2, 4), (4, 2), (3, 3), (3, 4), (4, 3), (4, 4), (2, 2))
              for a in conn[ka] for b in conn[kb]]
    # quick: mostly unions with a 4-vertex block (two emitters are in use when the next block starts)
    big = [u for u in unions if max(u[0].number_of_nodes(), u[1].number_of_nodes()) == 4]
    picked = (ctx.rng.sample(big, 14) + ctx.rng.sample(unions, 6)) if ctx.quick else ctx.rng.sample(unions, 400)
    for a, b in picked:
        gs.append(nx.disjoint_union(a, b))
    if not ctx.quick:
        for _ in range(40):
            a, b, c = (ctx.rng.choice(conn[k]) for k in (ctx.rng.choice([2, 3]), ctx.rng.choice([2, 3]), 2))
            gs.append(nx.disjoint_union(nx.disjoint_union(a, b), c))
    if not ctx.quick:
        gs += list(cz.all_graphs(5))
        for n, cnt in ((6, 400), (7, 150)):
            for _ in range(cnt):
                gs.append(nx.gnp_random_graph(n, ctx.rng.choice([0.3, 0.5, 0.7]), seed=ctx.rng.randrange(2 ** 31)))
    return gs


def run(ctx):
    rng = ctx.rng
    recs, runs, tid = [], [], 0
    reps = ["g", "s", "dm"]
    for gi, g in enumerate(graphs_for(ctx)):
        n = g.number_of_nodes()
        choices = [(reps[gi % 3], "stabilizer" if gi % 2 == 0 else "dm")] if ctx.quick else \
            [(r, b) for r in reps for b in ("stabilizer", "dm")]
        for rep, backend in choices:
            if n > 4 and (rep == "dm" or backend == "dm"):
                continue           # density-matrix legs are bounded to 4 photons (+ emitters)
            if gi % 4 == 1 and n >= 3 and g.number_of_edges() > 0 and not any(d == 0 for _, d in g.degree()):
                # every fourth target also as a graph with a shuffled insertion order (same state, position view g)
                rec2, _c2 = solve(shuffled_insertion(rng, g), rep, backend, setting=rng.choice([0, 1, 2]), view=g)
                tid += 1
                rec2.update({"tid": tid, "events": [], "meta": {"n": n, "edges": rec2["target"]["edges"], "rep": rep,
                                                                 "backend": backend, "err": rec2["err"], "isolated": False,
                                                                 "insertion": "shuffled"}})
                recs.append(rec2)
            if 3 <= n <= 5 and gi % 3 == 2 and g.number_of_edges() >= 2 and not any(d == 0 for _, d in g.degree()):
                # the same target in another gauge, with signed generators
                rec3, _c3 = solve(g, "s", "stabilizer", setting=rng.choice([0, 1, 2]), target=signed_gauge_target(rng, g))
                tid += 1
                rec3.update({"tid": tid, "events": [], "meta": {"n": n, "edges": rec3["target"]["edges"], "rep": "s-signed-gauge",
                                                                 "backend": "stabilizer", "err": rec3["err"], "isolated": False}})
                recs.append(rec3)
            rec, circuit = solve(g, rep, backend, setting=rng.choice([0, 1, 2]), again=(gi % 5 == 3))
            tid += 1
            rec["tid"] = tid
            rec["meta"] = {"n": n, "edges": rec["target"]["edges"], "rep": rep, "backend": backend,
                           "err": rec["err"], "isolated": any(d == 0 for _, d in g.degree())}
            rec["events"] = []
            recs.append(rec)
            if circuit is not None and (circuit.n_quantum <= 4 or backend == "stabilizer") and circuit.n_quantum <= 6:
                if ctx.quick and gi % 3 != 0:
                    continue
                bks = ("stabilizer", "dm") if circuit.n_quantum <= 4 else ("stabilizer",)
                t, tid = cz.compile_traces(circuit, tid, rng, backends=bks,
                                           meta={"n": n, "edges": rec["target"]["edges"], "kind": "solver-circuit"})
                runs += t
    # targets chosen by execution coverage of the solver (rarely executed solver code: sign corrections at a time-reversed
    # measurement, multi-emitter disentangling, ...)
    pool = cz.trs_pool()
    for g in pool[:30] if ctx.quick else pool:
        rec, circuit = solve(g, "s", "stabilizer", setting=rng.choice([0, 1, 2]))
        tid += 1
        rec.update({"tid": tid, "events": [], "meta": {"n": g.number_of_nodes(), "edges": rec["target"]["edges"], "rep": "s",
                                                       "backend": "stabilizer", "err": rec["err"], "isolated": False,
                                                       "origin": "coverage-pool"}})
        recs.append(rec)
    ctx.extra["coverage_pool_targets"] = len(pool[:30] if ctx.quick else pool)
    ctx.extra["targets"] = len(recs)
    ctx.judge("Trace_CircuitAll", recs, label="M: solver circuits over all measurement outcomes", mode="forall")
    ctx.judge("Trace_CircuitRun", runs, label="J: solver circuits compiled by both backends")
    ctx.assumptions.append("dm legs: at most 4 qubits; vertex order = label order, all labelled graphs cover all orders")
