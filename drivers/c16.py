"""C16 - relabelling, isomorph search and LC-orbit walks stay in the equivalence class.

G/J : for every labelled graph on n <= 4 vertices (quick) / 5 (thorough) + samples of 6, the REAL functions
    relabel (all / sampled permutations), get_relabel_map, iso_finder (settings grid n_iso x thresholds x seeds x
    allow_exhaustive x sort_emit), lc_orbit_finder (all flag combinations and depths), rgs_orbit_finder,
    linear_partial_orbit, depth_first_orbit are called; TLC judges RelabelOK, MapIsIso, InputFirst / PairwiseDistinct /
    AllIsomorphic / NeverMoreThanRequested, OrbitMember (membership in the local-complementation fixpoint orbit),
    OrbitDistinct.
"""
from __future__ import annotations

import itertools
import warnings

import networkx as nx
import numpy as np

from engine import circuits as cz
from drivers.c09 import adj_of, adj_out, graph_out


def relabel_events(g, n, rng, all_perms):
    from graphiq.utils.relabel_module import relabel, get_relabel_map
    a = adj_of(g, n)
    evs = []
    perms = list(itertools.permutations(range(n)))
    if not all_perms and len(perms) > 8:
        perms = rng.sample(perms, 8)
    for p in perms:
        try:
            out = relabel(a.copy(), np.array(p))
            o = adj_out(out, n)
            o["err"] = ""
        except Exception as ex:
            o = {"err": type(ex).__name__, "bad": "", "n": n, "edges": []}
        evs.append({"fn": "relabel", "p": [x + 1 for x in p], "out": o})
        if o["err"] == "" and o["bad"] == "":
            # the reported relabel map between the graph and its relabelled copy must be an isomorphism
            try:
                g2 = nx.from_numpy_array(np.asarray(out))
                m = get_relabel_map(a.copy(), np.asarray(out))
                mp = [int(m[v]) + 1 for v in range(n)]
                evs.append({"fn": "relabel_map", "g2": cz.graph_edges1(g2), "out": {"err": "", "map": mp}})
            except Exception as ex:
                evs.append({"fn": "relabel_map", "g2": o["edges"], "out": {"err": type(ex).__name__, "map": []}})
    return evs


def iso_events(g, n, rng, grid):
    from graphiq.utils.relabel_module import iso_finder
    a = adj_of(g, n)
    evs = []
    for (n_iso, thr, seed, exhaustive, sort_emit) in grid:
        try:
            with warnings.catch_warnings():
                warnings.simplefilter("ignore")
                res = iso_finder(a.copy(), n_iso, rel_inc_thresh=thr, allow_exhaustive=exhaustive, sort_emit=sort_emit,
                                 seed=seed)
            graphs = []
            for x in res:
                o = adj_out(np.asarray(x), n)
                graphs.append(o)
            out = {"err": "", "graphs": graphs}
        except Exception as ex:
            out = {"err": type(ex).__name__, "graphs": []}
        evs.append({"fn": "iso_finder", "n_iso": n_iso, "sorted": bool(sort_emit), "out": out})
    return evs


def orbit_events(g, n, rng, quick):
    import graphiq.utils.relabel_module as rm
    evs = []

    def by_position(h):
        # a returned graph that still has the caller's (shuffled) insertion order is the caller's own labelled graph:
        # read it in the library's convention, by position
        nodes = list(h.nodes())
        if nodes != sorted(nodes) and sorted(nodes) == list(range(n)):
            return nx.relabel_nodes(h, {v: k for k, v in enumerate(nodes)})
        return h

    def rec(via, f, distinct):
        try:
            with warnings.catch_warnings():
                warnings.simplefilter("ignore")
                res = f()
            out = {"err": "", "graphs": [graph_out(by_position(h), n) for h in res]}
        except Exception as ex:
            out = {"err": type(ex).__name__, "graphs": []}
        evs.append({"fn": "orbit", "via": via, "distinct": distinct, "out": out})

    combos = [(None, None, False, False, False), (1, None, True, False, False), (2, 5, False, False, False),
              (None, 3, True, False, False), (2, None, False, True, False), (3, None, True, True, False),
              (6, None, True, True, False), (15, None, False, True, False), (6, 6, True, True, False),
              (2, None, False, False, True), (None, 4, False, True, True)]
    if quick:
        combos = combos[:9]
    for depth, size, with_iso, rand, rep in combos:
        np.random.seed(rng.randrange(2 ** 31))
        # "distinct graphs" are asked for whenever repetitions are not allowed (random walks included)
        rec(f"lc_orbit_finder(depth={depth},size={size},with_iso={with_iso},rand={rand},rep={rep})",
            lambda: rm.lc_orbit_finder(g.copy(), comp_depth=depth, orbit_size_thresh=size, with_iso=with_iso,
                                       rand=rand, rep_allowed=rep),
            distinct=(not rep))
    # the same state handed over as a graph with another node INSERTION order (the explorers work on positions and return
    # graphs labelled 0..n-1, so the position view - this trace's base - is what the results are held against)
    order = list(range(n))
    while n >= 2 and order == list(range(n)):
        rng.shuffle(order)
    gsh = nx.Graph()
    gsh.add_nodes_from(order)
    gsh.add_edges_from((order[a], order[b]) for a, b in g.edges())
    for depth, size, with_iso, rand, rep in ((2, None, False, False, False), (3, 6, False, True, False)):
        np.random.seed(rng.randrange(2 ** 31))
        rec(f"lc_orbit_finder:shuffled-insertion(depth={depth},rand={rand})",
            lambda: rm.lc_orbit_finder(gsh.copy(), comp_depth=depth, orbit_size_thresh=size, with_iso=with_iso,
                                       rand=rand, rep_allowed=rep), distinct=False)
    if nx.is_connected(g) and n >= 2:
        rec("depth_first_orbit:shuffled-insertion", lambda: rm.depth_first_orbit(gsh.copy()), distinct=True)
    if nx.is_connected(g) and n >= 2:
        # the depth-first explorer lists the orbit it walked (one entry per graph it reached): distinct graphs. It is
        # called on many different graphs in this one process, like the alternate-target workflow does.
        rec("depth_first_orbit", lambda: rm.depth_first_orbit(g.copy()), distinct=True)
    degs = sorted(d for _, d in g.degree())
    if n >= 3 and g.number_of_edges() == n - 1 and max(degs) == 2 and nx.is_connected(g) and list(g.edges()) == [(i, i + 1) for i in range(n - 1)]:
        rec("linear_partial_orbit", lambda: rm.linear_partial_orbit(g.copy()), distinct=False)
    return evs


def iso_cert(g, o, n):
    """a permutation p (1-based list) with base[u,v] = out[p[u],p[v]], found by networkx; [] if none (TLC then rejects)."""
    if o["bad"]:
        return []
    h = nx.Graph()
    h.add_nodes_from(range(n))
    h.add_edges_from((a - 1, b - 1) for a, b in o["edges"])
    gm = nx.isomorphism.GraphMatcher(g, h)
    if not gm.is_isomorphic():
        return []
    return [gm.mapping[v] + 1 for v in range(n)]


def lc_certs(g, graphs, n):
    """for every returned graph a local-complementation sequence from g (breadth-first search; [0] if unreachable)."""
    def key(h):
        return frozenset(frozenset(e) for e in h.edges())

    def lc(h, v):
        k = h.copy()
        nb = list(h.neighbors(v))
        for a, b in itertools.combinations(nb, 2):
            if k.has_edge(a, b):
                k.remove_edge(a, b)
            else:
                k.add_edge(a, b)
        return k
    want = {}
    for h in graphs:
        hh = nx.Graph()
        hh.add_nodes_from(range(n))
        hh.add_edges_from(h.edges())
        want[key(hh)] = None
    g0 = nx.Graph()
    g0.add_nodes_from(range(n))
    g0.add_edges_from(g.edges())
    seen = {key(g0): []}
    frontier = [g0]
    if key(g0) in want:
        want[key(g0)] = []
    while frontier and any(v is None for v in want.values()) and len(seen) < 200000:
        nxt = []
        for h in frontier:
            for v in range(n):
                k = lc(h, v)
                kk = key(k)
                if kk not in seen:
                    seen[kk] = seen[key(h)] + [v + 1]
                    nxt.append(k)
                    if kk in want and want[kk] is None:
                        want[kk] = seen[kk]
        frontier = nxt
    out = []
    for h in graphs:
        hh = nx.Graph()
        hh.add_nodes_from(range(n))
        hh.add_edges_from(h.edges())
        c = want[key(hh)]
        out.append(c if c is not None else [0])
    return out


def rgs(m):
    """repeater graph state: complete graph on m core nodes, one leaf per core node (core nodes first)."""
    g = nx.complete_graph(m)
    for i in range(m):
        g.add_edge(i, m + i)
    return g


def run(ctx):
    import graphiq.utils.relabel_module as rm
    rng = ctx.rng
    traces, tid = [], 0
    sizes = (1, 2, 3, 4) if ctx.quick else (1, 2, 3, 4, 5)
    for n in sizes:
        graphs = list(cz.all_graphs(n))
        if n == 5:
            graphs = graphs[::3]
        for gi, g in enumerate(graphs):
            evs = relabel_events(g, n, rng, all_perms=(n <= 4 and (not ctx.quick or gi % 4 == 0)))
            if n >= 2:
                import math
                grid = [(rng.randint(1, min(4, math.factorial(n))), rng.choice([0.05, 0.2, 0.6]), rng.randrange(100), rng.random() < 0.7,
                         rng.random() < 0.25) for _ in range(2 if ctx.quick else 6)]
                if 3 <= n <= 4 and (not ctx.quick or gi % 2 == 1):
                    # requests close to the number of distinct relabellings that exist (n! / |Aut|): the adaptive search
                    # then runs out of permutations and falls back on its exhaustive pass
                    a0 = adj_of(g, n)
                    d = len({tuple(map(tuple, a0[np.ix_(p, p)])) for p in itertools.permutations(range(n))})
                    for k in sorted({max(1, d - 2), max(1, d - 1), d, min(math.factorial(n), d + 1)}):
                        grid.append((k, rng.choice([0.05, 0.2, 0.6]), rng.randrange(100), True, False))
                evs += iso_events(g, n, rng, grid)
            if n >= 2 and (not ctx.quick or gi % 2 == 0):
                evs += orbit_events(g, n, rng, ctx.quick)
            if 3 <= n <= 5 and gi % 2 == 1:
                # remove_iso on a list made of this graph, relabelled copies of it and of another graph, repeats included
                other = rng.choice(graphs)
                ins = []
                for src in (g, other, g, other, g):
                    perm = list(range(n))
                    if rng.random() < 0.7:
                        rng.shuffle(perm)
                    h = nx.Graph()
                    h.add_nodes_from(range(n))
                    h.add_edges_from((perm[a], perm[b]) for a, b in src.edges())
                    ins.append(h)
                rng.shuffle(ins)
                try:
                    res = rm.remove_iso([h.copy() for h in ins])
                    out = {"err": "", "graphs": [graph_out(h, n) for h in res]}
                except Exception as ex:
                    out = {"err": type(ex).__name__, "graphs": []}
                evs.append({"fn": "remove_iso", "ins": [cz.graph_edges1(h) for h in ins], "out": out})
            tid += 1
            traces.append({"tid": tid, "meta": {"n": n, "base": cz.graph_edges1(g)}, "n": n,
                           "base": cz.graph_edges1(g), "need_orbit": True, "events": evs})
    # scripted explorers on their own graph families
    for m in (2, 3):
        g = rgs(m)
        n = 2 * m
        evs = []
        try:
            res = rm.rgs_orbit_finder(g.copy())
            out = {"err": "", "graphs": [graph_out(h, n) for h in res]}
        except Exception as ex:
            out = {"err": type(ex).__name__, "graphs": []}
        evs.append({"fn": "orbit", "via": "rgs_orbit_finder", "distinct": False, "out": out})
        tid += 1
        traces.append({"tid": tid, "meta": {"n": n, "base": cz.graph_edges1(g), "family": "rgs"}, "n": n,
                       "base": cz.graph_edges1(g), "need_orbit": True, "events": evs})
    # the scripted explorer called again and again in one process, sizes interleaved (4, 3, 4, 6, 5, 6, ...): each call
    # on its own must return distinct graphs of the orbit ("a list of distinct graphs in the orbit")
    for n in (4, 3, 4, 6, 5, 6, 4, 5) if ctx.quick else (4, 3, 4, 6, 5, 6, 4, 5, 7, 6, 7, 3):
        g = nx.path_graph(n)
        evs = []
        try:
            res = rm.linear_partial_orbit(g.copy())
            out = {"err": "", "graphs": [graph_out(h, n) for h in res]}
        except Exception as ex:
            out = {"err": type(ex).__name__, "graphs": []}
        evs.append({"fn": "orbit", "via": "linear_partial_orbit", "distinct": True, "out": out})
        tid += 1
        traces.append({"tid": tid, "meta": {"n": n, "base": cz.graph_edges1(g), "family": "linear"}, "n": n,
                       "base": cz.graph_edges1(g), "need_orbit": True, "events": evs})
    if not ctx.quick:
        for _ in range(60):
            n = 6
            g = nx.gnp_random_graph(n, rng.choice([0.3, 0.5, 0.7]), seed=rng.randrange(2 ** 31))
            evs = relabel_events(g, n, rng, all_perms=False)
            evs += iso_events(g, n, rng, [(rng.randint(1, 6), 0.2, rng.randrange(100), True, False)])
            evs += orbit_events(g, n, rng, True)
            tid += 1
            traces.append({"tid": tid, "meta": {"n": n, "base": cz.graph_edges1(g)}, "n": n,
                           "base": cz.graph_edges1(g), "need_orbit": True, "events": evs})
    # 7..9 vertices with certificates (permutation per isomorph, complementation sequence per orbit member) that TLC
    # replays: the sampling branch of the isomorph finder (>= 8 vertices) and the long scripted sequences
    for n in (8, 9):
        for _ in range(2 if ctx.quick else 12):
            g = nx.gnp_random_graph(n, rng.choice([0.3, 0.5]), seed=rng.randrange(2 ** 31))
            evs = []
            for (n_iso, thr, seed, exhaustive, sort_emit) in [(rng.randint(2, 6), rng.choice([0.05, 0.2, 0.6]), rng.randrange(100),
                                                              False, rng.random() < 0.25) for _ in range(2)]:
                e = iso_events(g, n, rng, [(n_iso, thr, seed, exhaustive, sort_emit)])[0]
                e["fn"] = "iso_finder_cert"
                e["certs"] = [iso_cert(g, o, n) for o in e["out"]["graphs"]] if e["out"]["err"] == "" else []
                evs.append(e)
            tid += 1
            traces.append({"tid": tid, "meta": {"n": n, "base": cz.graph_edges1(g), "family": "big-iso"}, "n": n,
                           "base": cz.graph_edges1(g), "need_orbit": False, "events": evs})
    big = [(nx.path_graph(n), "linear_partial_orbit", lambda h: rm.linear_partial_orbit(h), True)
           for n in ((8, 7, 8) if ctx.quick else (8, 7, 8, 10, 9, 10))]
    big += [(rgs(4), "rgs_orbit_finder", lambda h: rm.rgs_orbit_finder(h), False)]
    for _ in range(2 if ctx.quick else 10):
        n = rng.choice([7, 8])
        g = nx.gnp_random_graph(n, 0.4, seed=rng.randrange(2 ** 31))
        depth = rng.choice([2, 3])
        big.append((g, f"lc_orbit_finder(depth={depth},rand=True)",
                    lambda h, depth=depth: rm.lc_orbit_finder(h, comp_depth=depth, rand=True, rep_allowed=False), True))
    for g, via, f, distinct in big:
        n = g.number_of_nodes()
        try:
            with warnings.catch_warnings():
                warnings.simplefilter("ignore")
                np.random.seed(rng.randrange(2 ** 31))
                res = f(g.copy())
            out = {"err": "", "graphs": [graph_out(h, n) for h in res]}
            certs = lc_certs(g, [h for h in res], n)
        except Exception as ex:
            out, certs = {"err": type(ex).__name__, "graphs": []}, []
        tid += 1
        traces.append({"tid": tid, "meta": {"n": n, "base": cz.graph_edges1(g), "family": "big-orbit"}, "n": n,
                       "base": cz.graph_edges1(g), "need_orbit": False,
                       "events": [{"fn": "orbit_cert", "via": via, "distinct": distinct, "out": out, "certs": certs}]})
    ctx.judge("Trace_Graphs", traces, label="G: relabel / iso_finder / orbit explorers on enumerated graphs", xmx="4g")
