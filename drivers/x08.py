"""X08 (extension) - Monte-Carlo noise assignment (graphiq.noise.monte_carlo_noise.MonteCarloNoise.assign_noise): for noise
maps built by call histories on the real McNoiseMap (X06) and emission-style circuits (gates, wrappers from the Clifford
library, emitter-emitter / emitter-photon pairs, measure-and-reset), the noisy copy is drawn twice with the same seed from
two fresh objects; per operation the noise found on the copy is recorded.  Trace_McAssign: ShapeOK, SupportOK (every
drawn noise is one the map allows for THAT gate - NoiseMap!Allowed, the operator MC_NoiseMap proves non-empty for every
reachable map), SeedDeterministic.
"""
from __future__ import annotations

from drivers import x06
from drivers.c18 import emission_like_program
from engine import circuits as cz

GATES = ["Hadamard", "Phase", "SigmaX", "SigmaZ", "CNOT", "CZ", "MeasurementCNOTandReset"]
KINDS = x06.KINDS


def project_map(m):
    out = {}
    mp = m.mapping
    for k in KINDS:
        out[k] = {}
        for g in GATES:
            if g in mp.get(k, {}):
                out[k][g] = {"has": True, "l": [[x06.nid_of(n), x06.eighths(p)] for n, p in mp[k][g]]}
            else:
                out[k][g] = {"has": False, "l": []}
    return out


def random_map(rng, deterministic=False, cleared=False):
    from graphiq.noise.monte_carlo_noise import McNoiseMap
    m = McNoiseMap()
    for _ in range(rng.randint(1, 6)):
        k = rng.choice(KINDS)
        g = rng.choice(["Hadamard", "Phase", "SigmaX", "SigmaZ"] if len(k) == 1 else ["CNOT", "CZ", "MeasurementCNOTandReset"])
        if deterministic:
            ts = [[rng.choice(["X", "Y", "Z"]), 8, True]]
        else:
            ts = [[nid, p, True] for nid, p in zip(rng.sample(["X", "Y", "Z"], rng.randint(1, 2)), rng.choice([[2, 2], [4, 4], [8, 0], [6, 1], [1, 3]]))]
        try:
            m.add_gate_noise(k, g, [x06.mk_tuple(t) for t in ts])
        except AssertionError:
            pass
    if cleared:
        # a gate whose noise was taken back (replaced by an empty list), or listed with probability 0 only
        k = rng.choice(["e", "p"])
        g = rng.choice(["Hadamard", "Phase", "SigmaX"])
        if rng.random() < 0.5:
            m.add_gate_noise(k, g, [x06.mk_tuple(["X", 4, True])])
            m.add_gate_noise(k, g, [])
        else:
            m.add_gate_noise(k, g, [x06.mk_tuple(["Z", 0, True])])
    return m


def noise_ids(noise):
    return [x06.nid_of(z) for z in noise] if isinstance(noise, list) else [x06.nid_of(noise)]


def draw(circuit, m, seed):
    from graphiq.backends.stabilizer.compiler import StabilizerCompiler
    from graphiq.circuit import ops as gops
    from graphiq.noise.monte_carlo_noise import MonteCarloNoise
    mc = MonteCarloNoise(circuit, 1, m, StabilizerCompiler(), seed)
    mc.n_noisy_gates = 0           # as one_run() does before it calls assign_noise()
    noisy = mc.assign_noise()
    ops_, out = [], []
    for op in noisy.sequence():
        if isinstance(op, gops.InputOutputOperationBase):
            continue
        rk = "".join(op.q_registers_type)
        w = [g.__name__ for g in op.operations] if isinstance(op, gops.OneQubitGateWrapper) else []
        ops_.append({"kind": type(op).__name__, "rk": rk, "w": w})
        out.append(noise_ids(op.noise))
    return ops_, out


def event(circuit, m, seed, cls):
    e = {"fn": "draw", "cls": cls, "gates": GATES, "map": project_map(m), "seed": seed, "err": "", "ops": [], "out": [], "out2": []}
    try:
        e["ops"], e["out"] = draw(circuit.copy(), m, seed)
        _ops2, e["out2"] = draw(circuit.copy(), m, seed)
    except Exception as ex:
        e["err"] = type(ex).__name__
    return e


def run(ctx):
    rng = ctx.rng
    events = []
    for i in range(250 if ctx.quick else 6000):
        n_e, n_p = rng.randint(1, 2), rng.randint(1, 3)
        prog = emission_like_program(rng, n_e, n_p, rng.randint(3, 10))
        has_wrapper = any(p["k"] == "OneQubitGateWrapper" for p in prog)
        circuit = cz.build_circuit(n_e, n_p, 1, prog)
        det = i % 3 == 0
        clr = i % 5 == 1
        m = random_map(rng, deterministic=det, cleared=clr)
        events.append(event(circuit, m, rng.randrange(10 ** 6),
                            ("wrapper" if has_wrapper else "plain") + ("-deterministic-map" if det else "") +
                            ("-cleared-gate" if clr else "")))
    # controlled pairs under a map that lists one noise with probability 1/2: control and target are drawn separately
    from graphiq.noise.monte_carlo_noise import McNoiseMap
    prog = [{"k": "Hadamard", "r": [["e", 0]], "c": None}] + [{"k": "CNOT", "r": [["e", 0], ["p", q]], "c": None} for q in range(3)] + \
           [{"k": "CZ", "r": [["e", 0], ["e", 1]], "c": None}]
    circuit = cz.build_circuit(2, 3, 1, prog)
    m = McNoiseMap()
    m.add_gate_noise("ep", "CNOT", [x06.mk_tuple(["X", 4, True])])
    m.add_gate_noise("ee", "CZ", [x06.mk_tuple(["Z", 4, True])])
    total = differ = 0
    for k in range(40):
        _ops, out = draw(circuit.copy(), m, rng.randrange(10 ** 6))
        for o in out:
            if len(o) == 2:
                total += 1
                differ += o[0] != o[1]
    events.append({"fn": "pairs", "cls": "pairs", "total": total, "differ": differ, "err": "", "gates": GATES,
                   "map": project_map(m), "ops": [], "out": [], "out2": [], "seed": 0})
    by = {}
    for e in events:
        by.setdefault(e["cls"], []).append(e)
    traces, tid = [], 0
    for cls, evs in sorted(by.items()):
        for j in range(0, len(evs), 25):
            tid += 1
            traces.append({"tid": tid, "meta": {"kind": cls}, "events": evs[j:j + 25]})
    ctx.judge("Trace_McAssign", traces, label="J: Monte-Carlo noise assignment on emission-style circuits")
    ctx.assumptions.append("extension check: not one of the listed properties; emission-style circuits (controls are emitters): "
                           "the register kinds e, p, ee, ep the noise map knows")
