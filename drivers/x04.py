"""X04 (extension) - the solver result table (graphiq.solvers.solver_result.SolverResult) judged against ResultTable.tla:
random call histories (set / replace a column, add a property, stable sort by a column, index queries, wrong lengths and
missing columns) with the whole table logged after every call.
"""
from __future__ import annotations


def project(res):
    cols = list(res._data.keys())
    n = len(res)

    def val(c, x):
        if x is None:
            return -1
        if c == "circuit_id":
            return int(str(x)[1:])
        return int(x)
    return {"cols": cols, "rows": [[val(c, res._data[c][i]) for c in cols] for i in range(n)]}


def history(tid, rng):
    from graphiq.solvers.solver_result import SolverResult
    n = rng.randint(0, 5)
    props = rng.sample(["score", "depth", "g"], rng.randint(0, 2))
    res = SolverResult([100 + i for i in range(n)], properties=list(props))
    init = project(res)
    events = []
    names = ["score", "depth", "g", "extra", "circuit", "circuit_id"]
    for _ in range(rng.randint(4, 12)):
        a = rng.choice(["set", "set", "add_property", "sort", "find"])
        c = rng.choice(names)
        e = {"a": a, "c": c, "vals": [], "v": 0, "err": "", "ret": [], "len": 0}
        try:
            if a == "set":
                if c in ("circuit", "circuit_id"):
                    c = e["c"] = "score"
                m = n if rng.random() < 0.8 else max(0, n + rng.choice([-1, 1]))
                e["vals"] = [rng.randint(0, 3) for _ in range(m)]
                res[c] = list(e["vals"])
            elif a == "add_property":
                if c in ("circuit", "circuit_id"):
                    c = e["c"] = "extra"
                res.add_properties(c)
            elif a == "sort":
                if c in res._data and any(x is None for x in res._data[c]):
                    c = e["c"] = "circuit_id"          # python cannot order None against numbers: not the table's business
                res.sort_by(c)
            else:
                e["v"] = rng.randint(0, 3)
                # the projection shows circuit ids "c<k>" as k and the stand-in circuits as 100 + k
                q = f"c{e['v']}" if c == "circuit_id" else e["v"]
                if c == "circuit":
                    e["v"] = q = 100 + e["v"]
                e["ret"] = [int(i) for i in res.get_index_with_column_value(c, q)]
                e["len"] = len(res)
        except Exception as ex:
            e["err"] = type(ex).__name__
        e["obs"] = project(res)
        events.append(e)
    return {"tid": tid, "meta": {"n": n, "props": props}, "init": init, "props": list(props), "events": events}


def run(ctx):
    traces = [history(i + 1, ctx.rng) for i in range(300 if ctx.quick else 6000)]
    ctx.judge("Trace_ResultTable", traces, label="J: call histories on the real SolverResult table")
    ctx.assumptions.append("extension check: not one of the listed properties; values are small integers, None is -1")
