"""Runs ONE configured random-search solver run and prints its per-generation record as JSON (used in-process and as
a child interpreter with another PYTHONHASHSEED by drivers/c19.py)."""
from __future__ import annotations

import hashlib
import json
import os
import sys
import warnings

INF = 2_000_000_000


def fix(x):
    import math
    if x is None or (isinstance(x, float) and (math.isinf(x) or math.isnan(x))):
        return INF
    return int(round(float(x) * 1e8))


def fingerprint(circuit):
    from engine import circuits as cz
    c, _ = cz.project_circuit(circuit)
    wires = {w: [(c["ops"][i - 1]["kind"], c["ops"][i - 1]["q"], c["ops"][i - 1]["c"], c["ops"][i - 1]["gates"]) for i in seq]
             for w, seq in c["wires"].items() if not w.startswith("c")}
    return hashlib.sha1(json.dumps(wires, sort_keys=True).encode()).hexdigest()[:16]


def make_compiler(name, md=1):
    from graphiq.backends.stabilizer.compiler import StabilizerCompiler
    from graphiq.backends.density_matrix.compiler import DensityMatrixCompiler
    c = StabilizerCompiler() if name == "stabilizer" else DensityMatrixCompiler()
    c.measurement_determinism = md          # forced outcomes (1 or 0): scores are then a function of the circuit alone
    return c


def target_of(cfg):
    import networkx as nx
    from engine import circuits as cz
    g = nx.Graph()
    g.add_nodes_from(range(cfg["n"]))
    g.add_edges_from(cfg["edges"])
    return g, cz.target_state(g, "s" if cfg["compiler"] == "stabilizer" else "dm")


def rescore(cfg, circuit, n_photon, n_emitter):
    from graphiq.metrics import Infidelity
    _, target = target_of(cfg)
    comp = make_compiler(cfg["compiler"], cfg.get("md", 1))
    st = comp.compile(circuit.copy())
    st.partial_trace(keep=list(range(n_photon)), dims=(n_photon + n_emitter) * [2])
    return Infidelity(target).evaluate(st, circuit)


def rescore_lib_path(cfg, circuit, n_photon, n_emitter):
    """the metric as the SOLVER evaluates it when its target has become a stabilizer and the compiler returns a density
    matrix (state converted with density_to_stabilizer inside Infidelity) - only used to name the cause of a mismatch"""
    from graphiq.metrics import Infidelity
    from engine import circuits as cz
    g, _ = target_of(cfg)
    try:
        target = cz.target_state(g, "s")
        comp = make_compiler(cfg["compiler"])
        st = comp.compile(circuit.copy())
        st.partial_trace(keep=list(range(n_photon)), dims=(n_photon + n_emitter) * [2])
        return Infidelity(target).evaluate(st, circuit)
    except Exception:
        return None


def run(cfg, full=True):
    import numpy as np
    from graphiq.metrics import Infidelity
    from graphiq.solvers.evolutionary_solver import EvolutionarySolver, EvolutionarySolverSetting
    from graphiq.solvers.hybrid_solvers import HybridEvolutionarySolver
    g, target = target_of(cfg)
    setting = EvolutionarySolverSetting(n_hof=cfg["n_hof"], n_stop=cfg["n_stop"], n_pop=cfg["n_pop"],
                                        tournament_k=cfg["k"], selection_active=cfg["selection"],
                                        use_adapt_probability=cfg["adapt"])
    comp = make_compiler(cfg["compiler"], cfg.get("md", 1))
    events = []
    if cfg["solver"] == "evolutionary":
        base = EvolutionarySolver
        kw = dict(n_emitter=cfg["n_emitter"], n_photon=cfg["n"])
        if cfg.get("warm"):
            # warm start: the user hands in an initial circuit (here: the solver's own initialisation for a fixed assignment)
            tmp = EvolutionarySolver(target=target, metric=Infidelity(target), compiler=make_compiler(cfg["compiler"]),
                                     n_emitter=cfg["n_emitter"], n_photon=cfg["n"])
            kw["circuit"] = tmp.initialization([k % cfg["n_emitter"] for k in range(cfg["n"])],
                                               [k % cfg["n"] for k in range(cfg["n_emitter"])])
    else:
        base = HybridEvolutionarySolver
        kw = {}

    class Recording(base):
        def update_logs(self, population, iteration):
            super().update_logs(population=population, iteration=iteration)
            if not full:
                return
            pop = [{"score": fix(s), "oid": id(c) % 1_000_000_007, "fp": fingerprint(c)} for s, c in population]
            hof = []
            for s, c in self.hof:
                if c is None:
                    hof.append({"score": INF, "oid": 0, "fp": "", "rescore": INF, "rescore_lib": INF})
                else:
                    hof.append({"score": fix(s), "oid": id(c) % 1_000_000_007, "fp": fingerprint(c),
                                "rescore": fix(rescore(cfg, c, self.n_photon, self.n_emitter)),
                                "rescore_lib": fix(rescore_lib_path(cfg, c, self.n_photon, self.n_emitter))
                                if (cfg["solver"] == "hybrid" and cfg["compiler"] == "dm") else INF})
            events.append({"ev": "gen", "i": iteration, "pop": pop, "hof": hof})

    with warnings.catch_warnings():
        warnings.simplefilter("ignore")
        solver = Recording(target=target, metric=Infidelity(target), compiler=comp, solver_setting=setting, **kw)
        solver.seed(cfg["seed"])
        try:
            solver.solve()
            final = [[fix(s), fingerprint(c) if c is not None else ""] for s, c in solver.hof]
            cost = [fix(x) for x in list(solver.logs["hof"]["cost_min"])]
            res = {"score": fix(solver.result[0]), "fp": fingerprint(solver.result[1])}
            err = ""
        except Exception as ex:
            final, cost, res, err = [], [], {"score": INF, "fp": ""}, type(ex).__name__
    return {"events": events, "final": final, "cost_min": cost, "result": res, "err": err}


if __name__ == "__main__":
    sys.path.insert(0, os.environ.get("VERIF_REPO", "/repo"))
    sys.path.insert(0, os.path.dirname(os.path.dirname(os.path.abspath(__file__))))
    os.environ.setdefault("MPLBACKEND", "Agg")
    cfg = json.loads(sys.argv[1])
    out = run(cfg, full=False)
    print("RESULT" + json.dumps({"final": out["final"], "err": out["err"]}))
