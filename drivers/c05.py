"""C05 - stabilizer state comparison and fidelity are exact.

M : MC_Stab (semantic lemmas), MC_StabPairs (fidelity lemmas on all ordered pairs).
G : TLC enumerates all stabilizer states on n qubits; python presents each in random generating sets with
    random destabilizers; the real functions are called on all ordered pairs (n = 2 quick; n = 3 thorough).
Judge: Trace_StabFn.tla (FidelityOK, Symmetric, OneIffEqual, EqOK, Canonical*, InfidelityOK).
"""
from __future__ import annotations

from fractions import Fraction

from engine import project as pj
from engine import stabgen as sg


def rat_out(f):
    try:
        v = f()
        fr = Fraction(float(v)).limit_denominator(1 << 20)
        if abs(float(fr) - float(v)) > 1e-9:
            return {"err": "NotRational:%r" % (v,), "n": 0, "d": 1}
        return {"err": "", "n": fr.numerator, "d": fr.denominator}
    except Exception as ex:
        return {"err": type(ex).__name__, "n": 0, "d": 1}


def build_states(rng, groups, per_group):
    """-> (list of obs dicts kind T, list of graphiq CliffordTableau, group index of each)."""
    obs, tabs, gidx = [], [], []
    for gi, grp in enumerate(groups):
        for _ in range(per_group):
            stab = sg.random_basis(rng, grp)
            destab = sg.random_destabilizers(rng, stab)
            tab = pj.rows_to_tableau(destab, stab)
            o = pj.tab_obs(tab)
            o["kind"] = "T"
            obs.append(o)
            tabs.append(tab)
            gidx.append(gi)
    return obs, tabs, gidx


SHARE = [0]


def neighbours_in_the_process():
    """What else a process that compares states typically does with the library in between: tableau conversions (they run
    synthesised circuits BACKWARDS), a forward circuit run, a graph-state tableau.  Results are not looked at here (C11 /
    C07 judge them); whatever these calls leave behind in the library is in place for the comparisons that follow."""
    import networkx as nx
    import numpy as np
    from graphiq.backends.stabilizer.clifford_tableau import CliffordTableau
    from graphiq.backends.stabilizer.tableau import StabilizerTableau
    from graphiq.backends.stabilizer.functions.rep_conversion import clifford_from_stabilizer, get_clifford_tableau_from_graph
    import graphiq.backends.stabilizer.functions.transformation as tr
    try:
        y_plus = StabilizerTableau([np.array([[1]]), np.array([[1]])], np.array([0]))          # |+i>
        clifford_from_stabilizer(y_plus)
        CliffordTableau(StabilizerTableau([np.array([[1, 0], [1, 1]]), np.array([[1, 1], [0, 1]])], np.array([0, 1])))
        get_clifford_tableau_from_graph(nx.path_graph(3))
        tr.run_circuit(CliffordTableau(2), [("H", 0), ("P", 0), ("CNOT", 0, 1), ("P_dag", 1)])
    except Exception:
        pass


def pair_traces(tid0, obs, tabs, pairs, chunk=400):
    """fidelity / eq / infidelity events for the given index pairs, chunked into traces."""
    import graphiq.backends.stabilizer.functions.metric as sfm
    from graphiq.backends.stabilizer.state import Stabilizer
    from graphiq.metrics import Infidelity
    from graphiq.state import QuantumState
    traces = []
    cur = []
    tid = tid0

    def flush():
        nonlocal cur, tid
        if cur:
            # only ship the states this chunk references
            used = sorted({k for e in cur for k in (e["a"], e["b"])})
            remap = {k: i + 1 for i, k in enumerate(used)}
            for e in cur:
                e["a"], e["b"] = remap[e["a"]], remap[e["b"]]
            tid += 1
            traces.append({"tid": tid, "meta": {"kind": "pairs"}, "states": [obs[k] for k in used], "events": cur})
            cur = []

    for (i, j, kind) in pairs:
        a, b = tabs[i], tabs[j]
        if SHARE[0] % 50 == 0:
            neighbours_in_the_process()
        # every second comparison is made on the LONG-LIVED objects themselves (no copies): a comparison must leave its
        # arguments as they were, or the later comparisons of the same objects come out wrong
        SHARE[0] += 1
        ca = (lambda t: t) if SHARE[0] % 2 else (lambda t: t.copy())
        if kind == "fidelity":
            e = {"fn": "fidelity", "a": i, "b": j,
                 "out": rat_out(lambda: sfm.fidelity(ca(a), ca(b))),
                 "out2": rat_out(lambda: sfm.fidelity(ca(b), ca(a)))}
        elif kind == "eq":
            try:
                v = bool(Stabilizer(ca(a)) == Stabilizer(ca(b)))
                e = {"fn": "eq", "a": i, "b": j, "out": {"err": "", "v": v}}
            except Exception as ex:
                e = {"fn": "eq", "a": i, "b": j, "out": {"err": type(ex).__name__, "v": False}}
        else:
            def metric():
                target = QuantumState(a.copy(), rep_type="s")
                state = QuantumState(b.copy(), rep_type="s")
                return Infidelity(target).evaluate(state, None)
            e = {"fn": "infidelity", "a": i, "b": j, "out": rat_out(metric)}
        cur.append(e)
        if len(cur) >= chunk:
            flush()
    flush()
    return traces, tid


def canonical_traces(tid0, rng, groups, n_sets, exhaustive=False):
    from graphiq.backends.stabilizer.functions.stabilizer import canonical_form
    traces, tid = [], tid0
    cur_states, cur_events = [], []
    for grp in groups:
        if exhaustive:
            bases = list(sg.all_bases(grp))
        else:
            bases = [sg.random_basis(rng, grp) for _ in range(n_sets)]
        ins, outs = [], []
        for rows in bases:
            st = sg.stabilizer_tableau(rows)
            o = pj.stab_obs(st)
            o["kind"] = "S"
            cur_states.append(o)
            ins.append(len(cur_states))
            try:
                out = pj.stab_obs(canonical_form(st.copy()))
            except Exception as ex:
                out = pj.err_obs(ex)
            outs.append(out)
        cur_events.append({"fn": "canonical", "ins": ins, "outs": outs})
        if len(cur_events) >= 40:
            tid += 1
            traces.append({"tid": tid, "meta": {"kind": "canonical"}, "states": cur_states, "events": cur_events})
            cur_states, cur_events = [], []
    if cur_events:
        tid += 1
        traces.append({"tid": tid, "meta": {"kind": "canonical"}, "states": cur_states, "events": cur_events})
    return traces, tid


PAIR_CFG = """CONSTANT N = {n}
SPECIFICATION Spec
INVARIANT FidelityLemmas
"""


def run(ctx):
    rng = ctx.rng
    ctx.mc("MC_StabPairs", PAIR_CFG.format(n=2), tag="N2", expect_distinct=3600)
    tid = 0
    all_traces = []
    # n = 1, 2 : all ordered pairs of states, 2 presentations each
    for n, per in ((1, 2), (2, 2 if ctx.quick else 3)):
        groups = sg.enumerate_groups(ctx, n)
        obs, tabs, gidx = build_states(rng, groups, per)
        idx = list(range(len(tabs)))
        pairs = []
        for i in idx:
            for j in idx:
                if ctx.quick and n == 2 and not (i % per == 0 and j % per == 1):
                    continue        # quick: every ordered pair of states once, in two different presentations
                pairs.append((i, j, "fidelity"))
                if (i + j) % 3 == 0 or gidx[i] == gidx[j]:
                    pairs.append((i, j, "eq"))
                if (i + 2 * j) % 7 == 0:
                    pairs.append((i, j, "infidelity"))
        tr, tid = pair_traces(tid, obs, tabs, pairs)
        all_traces += tr
        ctr, tid = canonical_traces(tid, rng, groups, 4, exhaustive=True)
        all_traces += ctr
        ctx.extra[f"pairs_n{n}"] = len(pairs)
    # n = 3 : sampled in quick, all 1080^2 ordered pairs of states in thorough
    groups3 = sg.enumerate_groups(ctx, 3)
    obs, tabs, gidx = build_states(rng, groups3, 1)
    if ctx.quick:
        pairs = []
        for _ in range(2500):
            i, j = rng.randrange(len(tabs)), rng.randrange(len(tabs))
            pairs.append((i, j, rng.choice(["fidelity", "fidelity", "eq", "infidelity"])))
        # near misses: same generators, one sign flipped (must be told apart)
        ctr, tid = canonical_traces(tid, rng, rng.sample(groups3, 120), 4)
    else:
        ctx.mc("MC_StabPairs", PAIR_CFG.format(n=3), tag="N3", expect_distinct=1080 * 1080)
        pairs = [(i, j, "fidelity") for i in range(len(tabs)) for j in range(len(tabs))]
        pairs += [(i, j, "eq") for i in range(len(tabs)) for j in range(len(tabs)) if (i * 7 + j) % 11 == 0 or i == j]
        ctr, tid = canonical_traces(tid, rng, groups3, 6)
    all_traces += ctr
    tr, tid = pair_traces(tid, obs, tabs, pairs)
    all_traces += tr
    ctx.extra["pairs_n3"] = len(pairs)
    # sign-flip near misses on n = 3: flip the sign of one generator of a state and compare with the original
    flips = []
    obs2, tabs2 = list(obs), list(tabs)
    for k in rng.sample(range(len(tabs)), 150 if ctx.quick else 1080):
        t2 = tabs[k].copy()
        row = t2.n_qubits + rng.randrange(t2.n_qubits)
        ph = t2.phase.copy()
        ph[row] ^= 1
        t2.phase = ph
        o = pj.tab_obs(t2)
        o["kind"] = "T"
        obs2.append(o)
        tabs2.append(t2)
        flips += [(k, len(tabs2) - 1, "eq"), (k, len(tabs2) - 1, "fidelity"), (len(tabs2) - 1, k, "infidelity")]
    tr, tid = pair_traces(tid, obs2, tabs2, flips)
    all_traces += tr
    ctx.extra["sign_flip_pairs"] = len(flips)
    # sampled 4..6-qubit states (independent sampler) against related states: another generating set of the same
    # state (F = 1), one generator sign flipped (F = 0), one more gate (F in {0, 1/2, 1}), an unrelated state
    obs4, tabs4, rel = [], [], []

    def add_state(rows):
        t = pj.rows_to_tableau(sg.random_destabilizers(rng, rows), rows)
        o = pj.tab_obs(t)
        o["kind"] = "T"
        obs4.append(o)
        tabs4.append(t)
        return len(tabs4) - 1

    for n, k in ((4, 60), (5, 40), (6, 12)) if ctx.quick else ((4, 1500), (5, 1000), (6, 300)):
        for _ in range(k):
            rows = sg.random_state_rows(rng, n)
            i = add_state(rows)
            flipped = [dict(r) for r in sg.random_regauge(rng, rows)]
            flipped[rng.randrange(n)]["s"] ^= 1
            a, b = rng.sample(range(n), 2)
            others = [sg.random_regauge(rng, rows), flipped,
                      sg.random_regauge(rng, sg.conj_rows(rows, rng.choice(["H", "S", "CX"]), a, b)),
                      sg.random_state_rows(rng, n)]
            for o_rows in others:
                j = add_state(o_rows)
                rel += [(i, j, "fidelity"), (i, j, "eq"), (j, i, "infidelity")]
    tr, tid = pair_traces(tid, obs4, tabs4, rel, chunk=60)
    all_traces += tr
    ctx.extra["pairs_n4to6_sampled"] = len(rel)
    ctx.judge("Trace_StabFn", all_traces, label="G: fidelity / equality / canonical form on enumerated states")
    ctx.assumptions.append("float results are compared as exact dyadic rationals (|x - p/q| <= 1e-9, q <= 2^20)")
