"""C01 - both simulation backends compute the state the circuit defines.

M : MC_CircuitRun - all programs of <= k operations on a small register set, every execution order consistent
    with the wires and every measurement outcome: confluence, valid states, reset leaves |0>, creg = outcomes.
G : the programs TLC enumerated are built with the real CircuitDAG.add and compiled by BOTH real compilers
    (tracing subclasses) under the settings forced-0, forced-1 and probabilistic.
J : random larger circuits (<= 4 qubits), with wrappers from the library's 24 and optional initial states.
Judge: Trace_CircuitRun.tla.
"""
from __future__ import annotations

import json

from engine import circuits as cz
from engine import stabgen as sg
from engine import project as pj


def traces_for(tid, prog_desc, n_e, n_p, n_c, rng, settings=(0, 1, 2), backends=("stabilizer", "dm"), init_rows=None,
               meta=None, edited=False):
    """One trace per (backend, setting).  edited: the circuit additionally gets an edit after construction (the SAME edit for
    every backend / setting: the edit is drawn from a generator seeded once)."""
    from graphiq.state import QuantumState
    out = []
    edit_seed = rng.randrange(2 ** 31)
    import random as _random
    for backend in backends:
        for setting in settings:
            circuit = cz.build_circuit(n_e, n_p, n_c, prog_desc)
            if edited:
                cz.edit_circuit(circuit, _random.Random(edit_seed))
            circ, _ = cz.project_circuit(circuit)
            init_state = None
            if init_rows is not None:
                destab = sg.random_destabilizers(rng, init_rows)
                tab = pj.rows_to_tableau(destab, init_rows)
                if backend == "dm":     # built by the projection, not by graphiq's own conversion (that is C08)
                    init_state = QuantumState(pj.rows_to_dm(init_rows), rep_type="dm")
                else:
                    init_state = QuantumState(tab, rep_type="s")
            events, _ = cz.compile_traced(circuit, backend, setting, initial_state=init_state,
                                          seed=rng.randrange(2 ** 31))
            tid += 1
            m = {"backend": backend, "setting": setting, "n_e": n_e, "n_p": n_p, "n_c": n_c, "program": prog_desc}
            m.update(meta or {})
            out.append({"tid": tid, "meta": m, "circ": circ, "setting": setting,
                        "init": init_rows if init_rows is not None else [], "events": events})
    return out, tid


MC_CFG = """CONSTANTS
  NE = {ne}
  NP = {np}
  NC = {nc}
  MaxLen = {maxlen}
SPECIFICATION Spec
INVARIANT TypeOK
INVARIANT ValidStates
INVARIANT Confluent
INVARIANT ResetLeavesZero
INVARIANT DumpProgram
CHECK_DEADLOCK FALSE
"""


def enumerate_programs(ctx, ne, np_, nc, maxlen):
    r = ctx.mc("MC_CircuitRun", MC_CFG.format(ne=ne, np=np_, nc=nc, maxlen=maxlen),
               tag=f"e{ne}p{np_}c{nc}L{maxlen}", workers=1, xmx="8g")
    progs = []
    for p in r.prints:
        if p[0] == "PROG":
            desc = []
            for op in json.loads(p[1]):
                regs = [["p", q - 1] if q <= np_ else ["e", q - np_ - 1] for q in op["q"]]
                d = {"k": op["kind"], "r": regs, "c": (op["c"] - 1) if op["c"] else None}
                if op["kind"] == "OneQubitGateWrapper":
                    d["w"] = list(op["gates"])
                desc.append(d)
            progs.append(desc)
    return progs


def run(ctx):
    rng = ctx.rng
    traces, tid = [], 0
    # --- G: programs enumerated by TLC (role M checks the semantics on the same programs)
    progs = enumerate_programs(ctx, 1, 1, 1, 2 if ctx.quick else 3)
    ctx.extra["enumerated_programs_1e1p1c"] = len(progs)
    if not ctx.quick:
        progs2 = enumerate_programs(ctx, 2, 1, 1, 2)
        ctx.extra["enumerated_programs_2e1p1c"] = len(progs2)
    else:
        progs2 = []
    for ne, np_, plist in ((1, 1, progs), (2, 1, progs2)):
        for desc in plist:
            t, tid = traces_for(tid, desc, ne, np_, 1, rng, meta={"kind": "enumerated"})
            traces += t
    ctx.judge("Trace_CircuitRun", traces, label="G: TLC-enumerated programs compiled by both backends")
    # --- J: random larger circuits
    wrappers = cz.library_wrappers()
    traces = []
    n_rand = 120 if ctx.quick else 6000
    groups2 = sg.enumerate_groups(ctx, 2)
    groups3 = sg.enumerate_groups(ctx, 3) if not ctx.quick else None
    for i in range(n_rand):
        n_e = rng.choice([1, 1, 2, 2, 3])
        n_p = rng.choice([0, 1, 1, 2]) if n_e < 3 else rng.choice([0, 1])
        n_c = rng.choice([1, 1, 2, 3])
        length = rng.randint(3, 14)
        desc = cz.random_program(rng, n_e, n_p, n_c, length, wrappers=wrappers)
        init_rows = None
        if rng.random() < 0.25 and n_e + n_p in (2, 3):
            if n_e + n_p == 2:
                init_rows = sg.random_basis(rng, rng.choice(groups2))
            elif groups3 is not None:
                init_rows = sg.random_basis(rng, rng.choice(groups3))
        setting = rng.choice([0, 1, 2, 2])
        t, tid = traces_for(tid, desc, n_e, n_p, n_c, rng, settings=(setting,), init_rows=init_rows,
                            meta={"kind": "random"}, edited=rng.random() < 0.3)
        traces += t
    ctx.judge("Trace_CircuitRun", traces, label="J: random circuits compiled by both backends")
    ctx.assumptions.append("density-matrix states are compared through their exact Pauli vectors, n <= 4 qubits")
