"""C10 - every alternate-target result generates the relabelled target.

J : the REAL AlternateTargetSolver.solve() on connected targets (all connected labelled graphs n <= 4 quick; + n = 5 and
    samples of 6 thorough) over a settings grid (n_iso, n_lc, every LC-orbit method, seeds) AND the default constructor.
    Every entry (circuit, listed graph, relabel map) of the returned list and of solver.result is judged by TLC:
      Generates  - Trace_CircuitAll: over EVERY measurement-outcome branch the circuit ends in
                   GraphState(Relabel(target, map)) with emitters in |0>; EmissionShape (C04)
      MapIsPerm, ListedLC (listed graph in the LC orbit of the relabelled target, by the complementation fixpoint),
      NoDuplicateGraphs - Trace_Graphs.
"""
from __future__ import annotations

import warnings

import networkx as nx
import numpy as np

from engine import circuits as cz
from engine import project as pj
from drivers.c09 import graph_out


def map_seq(m, n):
    try:
        return [int(m[v]) + 1 for v in range(n)]
    except Exception:
        return [0] * n


def entries_of(results, n):
    out = []
    for circ, props in results:
        out.append((circ, props["g"], props["map"], props.get("score", 0)))
    return out


def run_solver(target, setting_kw, seed, default=False):
    from graphiq.solvers.alternate_target_solver import AlternateTargetSolver, AlternateTargetSolverSetting
    from graphiq.backends.stabilizer.compiler import StabilizerCompiler
    with warnings.catch_warnings():
        warnings.simplefilter("ignore")
        np.random.seed(seed)
        noise = None if default else setting_kw.pop("_noise", None)
        if default:
            solver = AlternateTargetSolver(target=target, seed=seed)
        elif noise is not None:
            # the noise-simulating settings: every result circuit comes back annotated with depolarizing noise and scored by
            # a noisy compile (density-matrix compiler), or scored by Monte-Carlo runs; the circuits are judged as always
            if noise == "mc":
                setting_kw = dict(setting_kw, monte_carlo=True,
                                  monte_carlo_params={"n_sample": 2, "compiler": StabilizerCompiler(), "seed": 3})
            solver = AlternateTargetSolver(target=target, compiler=StabilizerCompiler(), noise_model_mapping="depolarizing",
                                           solver_setting=AlternateTargetSolverSetting(**setting_kw), seed=seed)
        else:
            solver = AlternateTargetSolver(target=target, compiler=StabilizerCompiler(),
                                           solver_setting=AlternateTargetSolverSetting(**setting_kw), seed=seed)
        res = solver.solve()
        if seed % 4 == 0:
            res = solver.solve()      # the same solver object asked again: the second answer is the one that is judged
    return res, solver


def rgs(m):
    g = nx.complete_graph(m)
    for i in range(m):
        g.add_edge(i, m + i)
    return g


def run(ctx):
    rng = ctx.rng
    recs, gtraces, tid = [], [], 0
    targets = [g for n in (2, 3, 4) for g in cz.all_graphs(n) if nx.is_connected(g)]
    if not ctx.quick:
        targets += [g for g in cz.all_graphs(5) if nx.is_connected(g)][::4]
        for _ in range(25):
            g = nx.gnp_random_graph(6, 0.5, seed=rng.randrange(2 ** 31))
            if nx.is_connected(g):
                targets.append(g)
    # the same graphs with their nodes inserted in a shuffled order (iteration order != label order)
    shuffled = []
    for g in targets[:: (3 if ctx.quick else 1)]:
        order = list(g.nodes())
        rng.shuffle(order)
        h = nx.Graph()
        h.add_nodes_from(order)
        es = list(g.edges())
        rng.shuffle(es)
        h.add_edges_from((v, u) if rng.random() < 0.5 else (u, v) for u, v in es)
        shuffled.append(h)
    targets = targets + shuffled
    methods = [None, "lc_with_iso", "random", "random_with_iso", "random_with_rep", "depth_first"]
    jobs = []
    for gi, g in enumerate(targets):
        n = g.number_of_nodes()
        jobs.append((g, None, True))                      # the default constructor
        for k in range(1 if ctx.quick else 4):
            m = methods[(gi + k) % len(methods)]
            jobs.append((g, {"n_iso_graphs": rng.randint(1, min(4, [1, 1, 2, 6, 24, 24, 24][n])), "n_lc_graphs": rng.randint(1, 4),
                             "lc_method": m, "sort_emit": rng.random() < 0.3, "allow_exhaustive": rng.random() < 0.7,
                             "lc_orbit_depth": rng.choice([None, 1, 2])}, False))
    # 5 - 7 vertex targets chosen by execution coverage of the deterministic solver underneath (engine/covpool.py): the ones
    # that reach its rarely executed code first
    pool = [g for g in cz.trs_pool() if nx.is_connected(g)]      # the property speaks of connected targets
    for k, g in enumerate(pool[:6] if ctx.quick else pool):
        jobs.append((g, {"n_iso_graphs": 2, "n_lc_graphs": 3, "lc_method": [None, "lc_with_iso", "depth_first"][k % 3],
                         "sort_emit": False, "allow_exhaustive": True, "lc_orbit_depth": None}, False))
    ctx.extra["coverage_pool_targets"] = len(pool[:6] if ctx.quick else pool)
    for k, g in enumerate([nx.path_graph(3), nx.cycle_graph(4), nx.star_graph(3), nx.path_graph(4)] if ctx.quick else
                          [g for g in cz.all_graphs(4) if nx.is_connected(g)][::3] + [nx.path_graph(3), nx.complete_graph(3)]):
        jobs.append((g, {"n_iso_graphs": 2, "n_lc_graphs": 2, "lc_method": [None, "lc_with_iso"][k % 2], "sort_emit": False,
                         "allow_exhaustive": True, "_noise": "depol" if k % 2 == 0 else "mc"}, False))
    for n in (4, 5):
        jobs.append((nx.path_graph(n), {"n_iso_graphs": 1, "n_lc_graphs": 3, "lc_method": "linear", "sort_emit": False}, False))
    # the scripted orbit methods on relabelled inputs (a path whose vertex 0 is interior, relabelled repeater graphs)
    # and with several isomorphs requested
    for n in (4, 5) if ctx.quick else (3, 4, 5, 6):
        for k in range(2 if ctx.quick else 6):
            perm = list(range(n))
            while perm[0] in (0, n - 1):
                rng.shuffle(perm)
            h = nx.relabel_nodes(nx.path_graph(n), {i: perm[i] for i in range(n)})
            hh = nx.Graph()
            hh.add_nodes_from(range(n))
            hh.add_edges_from(h.edges())
            jobs.append((hh, {"n_iso_graphs": 1 + k % 3, "n_lc_graphs": rng.randint(2, 4), "lc_method": "linear",
                              "sort_emit": False}, False))
        jobs.append((nx.path_graph(n), {"n_iso_graphs": 3, "n_lc_graphs": 3, "lc_method": "linear", "sort_emit": False}, False))
    for k in range(1 if ctx.quick else 4):
        perm = list(range(4))
        rng.shuffle(perm)
        h = nx.relabel_nodes(rgs(2), {i: perm[i] for i in range(4)})
        hh = nx.Graph()
        hh.add_nodes_from(range(4))
        hh.add_edges_from(h.edges())
        jobs.append((hh, {"n_iso_graphs": 1 + k % 2, "n_lc_graphs": 3, "lc_method": "rgs", "sort_emit": False}, False))
    jobs.append((rgs(2), {"n_iso_graphs": 1, "n_lc_graphs": 3, "lc_method": "rgs", "sort_emit": False}, False))
    if not ctx.quick:
        jobs.append((rgs(3), {"n_iso_graphs": 1, "n_lc_graphs": 4, "lc_method": "rgs", "sort_emit": False}, False))
    for g, kw, default in jobs:
        n = g.number_of_nodes()
        base = cz.graph_edges1(g)
        via = "default" if default else f"lc_method={kw['lc_method']}"
        meta = {"n": n, "edges": base, "setting": "default" if default else {k: v for k, v in kw.items()}}
        kw = dict(kw) if kw else kw
        try:
            res, solver = run_solver(g.copy(), kw, rng.randrange(1000), default)
        except Exception as ex:
            tid += 1
            gtraces.append({"tid": tid, "meta": meta, "n": n, "base": base, "need_orbit": False,
                            "events": [{"fn": "alt_result", "via": via, "err": type(ex).__name__, "entries": []}]})
            continue
        entries = []
        for src, items in (("returned", [(c, p["g"], p["map"], p.get("score", 0)) for c, p in res]),
                           ("solver.result", [(solver.result["circuit"][i], solver.result["g"][i],
                                               solver.result["map"][i], 0) for i in range(len(solver.result))])):
            ent = []
            for circ, lg, mp, score in items:
                ms = map_seq(mp, n)
                ent.append({"map": ms, "graph": graph_out(lg, n)})
                try:
                    cp, nodes = cz.project_circuit(circ)
                    rec = {"err": "", "circ": cp, "order": cz.sequence_order(circ, nodes),
                           "target": {"n": n, "edges": base, "map": ms}, "score": [0, 1],
                           "check_shape": True, "check_emitters": False}
                except Exception as ex:
                    rec = {"err": "Projection:" + type(ex).__name__,
                           "circ": {"nq": n, "nc": 0, "np": n, "ne": 0, "ops": [], "wires": {}}, "order": [],
                           "target": {"n": n, "edges": base, "map": ms}, "score": [0, 1], "check_shape": True,
                           "check_emitters": False}
                tid += 1
                rec.update({"tid": tid, "events": [], "meta": dict(meta, source=src)})
                recs.append(rec)
            entries.append((src, ent))
        evs = [{"fn": "alt_result", "via": via + ":" + src, "err": "", "entries": ent} for src, ent in entries]
        tid += 1
        gtraces.append({"tid": tid, "meta": meta, "n": n, "base": base, "need_orbit": False, "events": evs})
    ctx.extra["solver_runs"] = len(jobs)
    ctx.judge("Trace_CircuitAll", recs, label="M: result circuits over all measurement outcomes vs relabelled target",
              mode="forall")
    ctx.judge("Trace_Graphs", gtraces, label="J: result entries - map, listed graph in LC orbit, no duplicates", xmx="4g")
