"""X09 (extension) - what metric objects remember (graphiq.metrics: MetricBase.log / log_steps, the composite Metrics):
MC_MetricLog checks the design (one log entry per log_steps evaluations, the log is the subsequence of every k-th value,
append-only); real metric objects - every circuit cost metric class with log_steps 1..3, and composites over several
CircuitDepth members with integer weights and their own log_steps - are evaluated on sequences of random circuits, value,
log and member logs recorded after every call and validated by Trace_MetricLog (ValueOK, LogOK, MemberLogOK).
"""
from __future__ import annotations

from drivers.c18 import NAMES, PENALTY_KW, emission_like_program
from engine import circuits as cz

CFG = """CONSTANTS
  MaxLen = {k}
SPECIFICATION Spec
INVARIANT LogShapeInv
INVARIANT LogIsSubsequence
PROPERTY AppendOnly
CHECK_DEADLOCK FALSE
"""


def ints(xs):
    return [int(x) for x in xs]


def history(tid, rng, composite):
    import graphiq.metrics as gm
    circuits = []
    for _ in range(rng.randint(4, 9)):
        n_e, n_p = rng.randint(1, 2), rng.randint(1, 3)
        circuits.append(cz.build_circuit(n_e, n_p, 1, emission_like_program(rng, n_e, n_p, rng.randint(0, 8))))
    k = rng.randint(1, 3)
    if composite:
        members, steps = [], []
        for _ in range(rng.randint(1, 3)):
            a, b, ks = rng.randint(1, 3), rng.randint(0, 4), rng.randint(1, 3)
            members.append(gm.CircuitDepth(log_steps=ks, depth_penalty=(lambda x, a=a, b=b: a * x + b)))
            steps.append(ks)
        weights = [rng.randint(0, 3) for _ in members]
        how = rng.choice(["list", "array", "none"])
        if how == "none":
            weights = [1] * len(members)
            m = gm.Metrics(members, log_steps=k)
        elif how == "list":
            m = gm.Metrics(members, metric_weight=list(weights), log_steps=k)
        else:
            import numpy as np
            m = gm.Metrics(members, metric_weight=np.array(weights), log_steps=k)
        cls = "Metrics"
    else:
        name = rng.choice(NAMES)
        members, steps, weights = [], [], []
        if rng.random() < 0.5:
            m = getattr(gm, name)(log_steps=k)
        else:
            a, b = rng.randint(1, 3), rng.randint(0, 4)
            m = getattr(gm, name)(log_steps=k, **{PENALTY_KW[name]: (lambda x, a=a, b=b: a * x + b)})
        cls = name
    events = []
    for c in circuits:
        e = {"err": "", "v": 0, "mv": [0] * len(members), "log": [], "mlog": [[] for _ in members]}
        before = [len(x.log) for x in members], [x._inc for x in members]
        try:
            e["v"] = int(m.evaluate(None, c))
            # a member's value of this call: read back from what it was asked (its own evaluation of the same circuit
            # by a fresh twin with the same penalty would be the C18 question; here the member's returned value is
            # reconstructed from its penalty on the circuit depth)
            e["mv"] = [int(x.depth_penalty(c.depth)) for x in members]
        except Exception as ex:
            e["err"] = type(ex).__name__
        e["log"] = ints(m.log)
        e["mlog"] = [ints(x.log) for x in members]
        events.append(e)
    return {"tid": tid, "meta": {"kind": cls}, "cls": cls, "composite": bool(composite), "log_steps": k,
            "member_steps": steps, "weights": weights, "events": events}


def run(ctx):
    rng = ctx.rng
    ctx.mc("MC_MetricLog", CFG.format(k=6 if ctx.quick else 8), tag="log", workers=4)
    traces = [history(i + 1, rng, composite=(i % 3 == 0)) for i in range(150 if ctx.quick else 3000)]
    ctx.judge("Trace_MetricLog", traces, label="J: evaluate() histories on real metric objects (plain and composite)")
    ctx.assumptions.append("extension check: not one of the listed properties; composite members are CircuitDepth objects "
                           "(integer values) - the composite accepts Infidelity / TraceDistance / CircuitDepth only")
