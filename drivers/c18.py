"""C18 - circuit cost metrics equal the quantities they are defined as.

J : every metric class, constructed with its DEFAULT arguments and with an explicit affine penalty, is evaluated by
    the real code on random circuits (wrappers, identities, resets), benchmark circuits and solver outputs; the spec
    (Metrics.tla) computes the definition from the projected operation list; TLC compares (MetricOK), and checks that
    the evaluated circuit is unchanged (InputUnchanged).
"""
from __future__ import annotations

from engine import circuits as cz
from engine import project as pj

NAMES = ["CircuitDepth", "CircuitEmitterCount", "CircuitCnotCount", "CircuitUnitaryCount", "CircuitMeasureCount",
         "CircuitMaxEmitDepth", "CircuitMaxEmitResetDepth", "CircuitMaxEmitEffDepth"]
PENALTY_KW = {"CircuitDepth": "depth_penalty", "CircuitEmitterCount": "n_emitter_penalty",
              "CircuitCnotCount": "n_cnot_penalty", "CircuitUnitaryCount": "n_unitary_penalty",
              "CircuitMeasureCount": "m_penalty", "CircuitMaxEmitDepth": "depth_penalty",
              "CircuitMaxEmitResetDepth": "depth_penalty", "CircuitMaxEmitEffDepth": "depth_penalty"}


def emission_like_program(rng, n_e, n_p, length):
    """Random circuits in which every measure-and-reset has an emitter control and a photon target and no other
    measuring operation occurs (the class the emitter-depth metrics and the measurement count document)."""
    regs_e = [["e", i] for i in range(n_e)]
    regs_p = [["p", i] for i in range(n_p)]
    wr = cz.library_wrappers()
    prog = []
    for _ in range(length):
        r = rng.random()
        if r < 0.3:
            prog.append({"k": rng.choice(cz.ONEQ), "r": [rng.choice(regs_e + regs_p)], "c": None})
        elif r < 0.45:
            prog.append({"k": "OneQubitGateWrapper", "r": [rng.choice(regs_e + regs_p)], "c": None, "w": rng.choice(wr)})
        elif r < 0.6 and n_e >= 2:
            a, b = rng.sample(regs_e, 2)
            prog.append({"k": rng.choice(["CNOT", "CZ"]), "r": [a, b], "c": None})
        elif r < 0.8 and regs_p:
            prog.append({"k": rng.choice(["CNOT", "CZ"]), "r": [rng.choice(regs_e), rng.choice(regs_p)], "c": None})
        elif regs_p:
            prog.append({"k": "MeasurementCNOTandReset", "r": [rng.choice(regs_e), rng.choice(regs_p)], "c": 0})
    return prog


def feed_forward_program(rng, n_e, n_p, length):
    """emission-like programs with classically controlled corrections (no reset) in between: a photon (or emitter) is
    measured and an X / Z correction lands on an emitter or a photon. Resets are still only the measure-and-reset ones."""
    prog = emission_like_program(rng, n_e, n_p, length)
    regs_e = [["e", i] for i in range(n_e)]
    regs_p = [["p", i] for i in range(n_p)]
    for _ in range(rng.randint(1, 3)):
        k = rng.choice(["ClassicalCNOT", "ClassicalCZ"])
        if rng.random() < 0.5 or n_e < 2:
            pair = [rng.choice(regs_p), rng.choice(regs_e)] if rng.random() < 0.6 else [rng.choice(regs_e), rng.choice(regs_p)]
        else:
            pair = rng.sample(regs_e, 2)
        prog.insert(rng.randrange(len(prog) + 1), {"k": k, "r": pair, "c": 0})
    return prog


SHARED = {}


def metric_events(circuit, rng):
    import graphiq.metrics as gm
    evs = []
    for name in NAMES:
        cls = getattr(gm, name)
        for default in (True, False):
            a, b = (1, 0) if default else (rng.randint(2, 5), rng.randint(0, 7))
            try:
                if default:
                    # the default-argument metric objects live for the whole run and see every circuit (whatever a metric
                    # object keeps between evaluations is then in play)
                    if name not in SHARED:
                        SHARED[name] = cls()
                    m = SHARED[name]
                else:
                    m = cls(**{PENALTY_KW[name]: (lambda x, a=a, b=b: a * x + b)})
                v = m.evaluate(None, circuit)
                out = {"err": "", "v": int(v)}
            except Exception as ex:
                out = {"err": type(ex).__name__, "v": 0}
            evs.append({"fn": "metric", "name": name, "default": default, "a": a, "b": b, "out": out})
    try:
        rd = circuit.register_depth
        d = {}
        for t in ("e", "p", "c"):
            for i, v in enumerate(rd[t]):
                d[f"{t}{i}"] = int(v)
        evs.append({"fn": "reg_depth", "out": {"err": "", "d": d}})
    except Exception as ex:
        evs.append({"fn": "reg_depth", "out": {"err": type(ex).__name__, "d": {}}})
    return evs


def trace_for(tid, circuit, rng, meta, warm=False, skip=()):
    if warm:
        try:
            _ = circuit.register_depth, circuit.depth      # a query BEFORE the metrics (caches, if any, get filled)
        except Exception:
            pass
    before, _ = cz.project_circuit(circuit)
    evs = [e for e in metric_events(circuit, rng) if e.get("name") not in skip]
    after, _ = cz.project_circuit(circuit)
    evs.append({"fn": "unchanged", "circ": after})
    return {"tid": tid, "meta": meta, "circ": before, "events": evs}


def run(ctx):
    import networkx as nx
    import graphiq.benchmarks.circuits as bc
    from drivers import c02
    rng = ctx.rng
    traces, tid = [], 0
    for _ in range(60 if ctx.quick else 1500):
        n_e, n_p = rng.randint(1, 3), rng.randint(0, 3)
        prog = emission_like_program(rng, n_e, n_p, rng.randint(0, 12))
        tid += 1
        traces.append(trace_for(tid, cz.build_circuit(n_e, n_p, 1, prog), rng, {"kind": "random", "program": prog}))
    # feed-forward circuits (classically controlled corrections touching emitters between the resets); "number of
    # measurements" is not judged on them (whether a classically controlled gate counts as one is not stated anywhere)
    for _ in range(30 if ctx.quick else 800):
        n_e, n_p = rng.randint(1, 3), rng.randint(1, 3)
        prog = feed_forward_program(rng, n_e, n_p, rng.randint(2, 12))
        tid += 1
        traces.append(trace_for(tid, cz.build_circuit(n_e, n_p, 1, prog), rng, {"kind": "feed-forward", "program": prog},
                                skip=("CircuitMeasureCount",)))
    # edit-then-measure histories: metrics and register depths are re-evaluated after removals / insertions on the SAME
    # circuit object (each round is judged against a fresh projection)
    from graphiq.circuit import ops as gops
    for _ in range(25 if ctx.quick else 600):
        n_e, n_p = rng.randint(1, 3), rng.randint(1, 2)
        prog = emission_like_program(rng, n_e, n_p, rng.randint(4, 12))
        if rng.random() < 0.6:       # identities and no wrappers
            prog = [p for p in prog if p["k"] != "OneQubitGateWrapper"]
            for _k in range(3):
                prog.insert(rng.randrange(len(prog) + 1), {"k": "Identity", "r": [["e", rng.randrange(n_e)]], "c": None})
        circuit = cz.build_circuit(n_e, n_p, 1, prog)
        for rnd in range(3):
            tid += 1
            traces.append(trace_for(tid, circuit, rng, {"kind": "edit-history", "round": rnd, "program": prog}, warm=True))
            nodes = [n for n in circuit.dag.nodes if not isinstance(circuit.dag.nodes[n]["op"], gops.InputOutputOperationBase)]
            if not nodes:
                break
            r = rng.random()
            if r < 0.4:
                circuit.remove_op(rng.choice(nodes))
            elif r < 0.75:
                # replace an operation by one of ANOTHER class on the same registers (the class index must follow)
                n0 = rng.choice(nodes)
                old_op = circuit.dag.nodes[n0]["op"]
                regs = [[t, q] for q, t in zip(old_op.q_registers, old_op.q_registers_type)]
                if len(regs) == 1:
                    kinds = [k for k in ("Hadamard", "Phase", "SigmaX", "Identity") if k != type(old_op).__name__]
                    spec = {"k": rng.choice(kinds), "r": regs, "c": None}
                elif type(old_op).__name__ in ("CNOT", "CZ"):
                    spec = {"k": "CZ" if type(old_op).__name__ == "CNOT" else "CNOT", "r": regs, "c": None}
                else:
                    spec = None
                if spec is not None and "Fixed" not in [str(x) for x in old_op.labels]:
                    circuit.replace_op(n0, cz.build_op(spec))
            else:
                circuit.add(cz.build_op({"k": rng.choice(cz.ONEQ), "r": [["e", rng.randrange(n_e)]], "c": None}))
    for f in (bc.ghz3_state_circuit, bc.linear_cluster_4qubit_circuit, bc.ghz4_state_circuit,
              bc.linear_cluster_3qubit_circuit):
        tid += 1
        traces.append(trace_for(tid, f()[0], rng, {"kind": f.__name__}))
    graphs = [g for n in (2, 3, 4) for g in cz.all_graphs(n) if all(d > 0 for _, d in g.degree())]
    if not ctx.quick:
        graphs += [g for g in cz.all_graphs(5) if all(d > 0 for _, d in g.degree())][::7]
    for g in graphs if not ctx.quick else graphs[::3]:
        rec, circuit = c02.solve(g, "g", "stabilizer")
        if circuit is not None:
            tid += 1
            traces.append(trace_for(tid, circuit, rng, {"kind": "solver", "edges": cz.graph_edges1(g)}))
    ctx.judge("Trace_Metrics", traces, label="J: metric classes (default and explicit penalty) on circuits")
    ctx.assumptions.append("emitter depth / reset depth / effective depth / measurement count are judged on circuits whose "
                           "only RESETTING operations are emitter-controlled measure-and-reset operations on photons; "
                           "classically controlled X / Z corrections may touch emitters (they are not resets); the "
                           "measurement count is not judged on circuits that contain them")
