"""X02 (extension) - the graph representation object (graphiq.backends.graph.state.Graph) as a state machine.

M : MC_GraphRep - all call histories of length <= 3 over 3 vertices and 5 gate words: WellFormedInv, LCInvolution.
G : every history of maximal length that TLC generated is REPLAYED into the real class (spec behaviours -> code) ...
J : ... and the recorded trace (error raised, projected object state after every call) is validated by Trace_GraphRep with
    the same operators (code behaviours -> spec), together with random longer histories on 5 vertices.
"""
from __future__ import annotations

import json

import networkx as nx

QASM = {"Identity": "id", "Hadamard": "h", "Phase": "s", "PhaseDagger": "sdg", "SigmaX": "x", "SigmaY": "y", "SigmaZ": "z"}
GATES = ["Identity", "Hadamard", "Phase", "SigmaX", "SigmaY", "SigmaZ"]   # the simplifier knows no PhaseDagger (words over I,H,P,X,Y,Z)
CFG = """CONSTANTS
  Nodes = {{1, 2, 3}}
  MaxLen = {k}
SPECIFICATION Spec
INVARIANT WellFormedInv
INVARIANT LCInvolution
INVARIANT Dump
CHECK_DEADLOCK FALSE
"""


def project(g):
    from graphiq.backends.graph.state import Graph
    nodes = list(g.get_nodes())
    return {"nodes": [int(v) for v in nodes],
            "edges": [[int(a), int(b)] for a, b in g.get_edges()],
            "lc": [[c.__name__ for c in g.find_lc(v)] for v in nodes],
            "is_graph_state": bool(Graph.is_graph_state(g)), "n_qubits": int(g.n_qubits)}


def replay(calls):
    """calls: [{"a","u","v","w"}] -> events with err / obs from the real object"""
    from graphiq.backends.graph.state import Graph
    g = Graph(nx.Graph())
    events = []
    for c in calls:
        e = {"a": c["a"], "u": c["u"], "v": c["v"], "w": list(c["w"]), "err": ""}
        try:
            if c["a"] == "add_node":
                g.add_node(c["u"], lc_gate=[QASM[x] for x in c["w"]] if c["w"] else None)   # the API takes openQASM names
            elif c["a"] == "add_edge":
                g.add_edge(c["u"], c["v"])
            elif c["a"] == "update_lc":
                g.update_lc(c["u"], [QASM[x] for x in c["w"]])
            else:
                g.local_complementation(c["u"])
        except Exception as ex:
            e["err"] = type(ex).__name__
        try:
            e["obs"] = project(g)
        except Exception as ex:
            e["obs"] = {"nodes": [], "edges": [], "lc": [], "is_graph_state": False, "n_qubits": -1}
            e["err"] = e["err"] or ("Projection:" + type(ex).__name__)
        events.append(e)
    return events


def run(ctx):
    rng = ctx.rng
    r = ctx.mc("MC_GraphRep", CFG.format(k=3 if ctx.quick else 4), tag="hist", workers=1)
    hists = [json.loads(p[1]) for p in r.prints if p[0] == "HIST"]
    ctx.extra["tlc_histories_generated"] = len(hists)
    cap = 6000 if ctx.quick else 60000
    if len(hists) > cap:
        hists = rng.sample(hists, cap)      # replaying costs ~2 ms per call (matrix look-ups in the Clifford simplifier)
    traces = []
    for i, h in enumerate(hists):
        traces.append({"tid": i + 1, "meta": {"kind": "tlc-history"}, "events": replay(h)})
    ctx.extra["tlc_histories_replayed"] = len(hists)
    # longer behaviours straight from TLC's simulation mode (random walks through the same Next), 4 vertices, 10 calls
    sim_cfg = CFG.format(k=10).replace("{1, 2, 3}", "{1, 2, 3, 4}")
    rs = ctx.mc("MC_GraphRep", sim_cfg, tag="simulate", workers=1,
                extra=["-simulate", "num=%d" % (40 if ctx.quick else 400), "-depth", "11", "-seed", str(ctx.seed % 100000)])
    sims = []
    seen = set()
    for pr in rs.prints:
        if pr[0] == "HIST" and pr[1] not in seen:
            seen.add(pr[1])
            sims.append(json.loads(pr[1]))
    sims = sims[:300 if ctx.quick else 6000]
    ctx.extra["tlc_simulated_histories_replayed"] = len(sims)
    for h in sims:
        traces.append({"tid": len(traces) + 1, "meta": {"kind": "tlc-simulated-history"}, "events": replay(h)})
    base = len(traces)
    for j in range(40 if ctx.quick else 2000):
        calls = []
        for _ in range(rng.randint(10, 30)):
            a = rng.choice(["add_node", "add_edge", "add_edge", "update_lc", "local_comp"])
            u, v = rng.sample(range(1, 6), 2)
            w = [rng.choice(GATES) for _ in range(rng.randint(0, 4))] if a in ("add_node", "update_lc") and rng.random() < 0.6 else []
            calls.append({"a": a, "u": u, "v": v if a == "add_edge" else 0, "w": w})
        traces.append({"tid": base + j + 1, "meta": {"kind": "random-history"}, "events": replay(calls)})
    ctx.judge("Trace_GraphRep", traces, label="G/J: TLC-generated and random call histories on the real Graph object")
    ctx.assumptions.append("extension check: not one of the listed properties; add_edge(u, u) (self loop) is outside the model")
