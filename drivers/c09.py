"""C09 - local-Clifford equivalence of graph states is decided correctly, constructively.

M : MC_LCOrbit - local complementation is an involution toggling exactly the neighbour pairs (all graphs, N <= 4 / 5);
    the orbit fixpoint contains every reachable graph.
G/J : for every labelled start graph G1 (n <= 4 quick; n = 5 thorough; n = 6 sampled) the REAL decision procedure is
    called against every G2 (n <= 4) / its whole orbit + as many non-members (n >= 5); TLC computes Orbit(G1) by the
    local-complementation fixpoint and judges Soundness / Completeness; on every "yes" the returned Clifford gates are
    executed by the spec on |G1> (CliffordsOK, exact signs) and the returned complementation sequence is folded over
    G1 (SequenceOK).  Inputs as graphs, adjacency matrices and tableaux; both solution modes.
"""
from __future__ import annotations

import networkx as nx
import numpy as np

from engine import circuits as cz
from engine import project as pj
from engine import stabgen as sg


def adj_of(g, n):
    return nx.to_numpy_array(g, nodelist=range(n)).astype(int)


def graph_out(g, n):
    """networkx graph (nodes 0..n-1) -> {"bad","n","edges"}"""
    try:
        nodes = sorted(g.nodes())
        if nodes != list(range(n)):
            return {"bad": f"nodes {nodes}", "n": len(nodes), "edges": []}
        return {"bad": "", "n": n, "edges": cz.graph_edges1(g)}
    except Exception as ex:
        return {"bad": type(ex).__name__, "n": 0, "edges": []}


def adj_out(a, n):
    a = np.asarray(a)
    if a.shape != (n, n) or not np.array_equal(a, a.T) or np.any(np.diag(a) != 0) or not np.all((a == 0) | (a == 1)):
        return {"bad": "not a simple adjacency matrix", "n": n, "edges": []}
    return {"bad": "", "n": n, "edges": [[i + 1, j + 1] for i in range(n) for j in range(i + 1, n) if a[i, j]]}


def solution_dim(a1, a2):
    """Dimension of the solution space of the Van den Nest linear system for (theta, theta'), computed by the
    harness's own GF(2) elimination (sum_i theta_ij theta'_ik c_i + theta_jk a_k + theta'_jk d_j + delta_jk b_j = 0)."""
    n = a1.shape[0]
    rows = []
    for j in range(n):
        for k in range(n):
            r = [0] * (4 * n)
            for i in range(n):
                r[4 * i + 2] ^= int(a1[i, j]) & int(a2[i, k])
            r[4 * k + 0] ^= int(a1[j, k])
            r[4 * j + 3] ^= int(a2[j, k])
            if j == k:
                r[4 * j + 1] ^= 1
            rows.append(r)
    return 4 * n - sg.gf2_rank(rows)


BLOCK_WORDS = {"I": ["I"], "H": ["H"], "P": ["P"], "P H": ["P", "H"], "H P_dag": ["H", "PD"], "P H P": ["P", "H", "P"]}


def decide_events(g1, g2, n, rng, full):
    """All judgements for the ordered pair (g1, g2)."""
    from graphiq.backends.lc_equivalence_check import is_lc_equivalent, local_clifford_ops, find_lc_operations
    from graphiq.backends.graph.state import Graph
    from graphiq.backends.stabilizer.functions.local_cliff_equi_check import lc_check
    from graphiq.backends.stabilizer.functions.rep_conversion import get_clifford_tableau_from_graph
    evs = []
    e2 = cz.graph_edges1(g2)
    a1, a2 = adj_of(g1, n), adj_of(g2, n)
    dim = solution_dim(a1, a2)
    yes = None
    for via, f in (("is_lc_equivalent:deterministic", lambda: is_lc_equivalent(a1.copy(), a2.copy())),
                   ("is_lc_equivalent:random", lambda: is_lc_equivalent(a1.copy(), a2.copy(), mode="random", seed=rng.randrange(1000))),
                   ("Graph.lc_equivalent", lambda: Graph(g1.copy()).lc_equivalent(Graph(g2.copy())))):
        if via != "is_lc_equivalent:deterministic" and not full:
            continue
        try:
            ok, sol = f()
            ok = bool(ok)
            evs.append({"fn": "lc_decide", "via": via, "g2": e2, "dim": dim, "out": {"err": "", "yes": ok}})
            if via == "is_lc_equivalent:deterministic":
                yes = ok
            if ok:
                names = local_clifford_ops(sol)
                gates = []
                for i, nm in enumerate(names):
                    for g in BLOCK_WORDS[nm][::-1]:       # matrix-product notation: rightmost factor acts first
                        gates.append({"g": g, "a": i + 1, "b": 0})
                if len(names) != n:
                    gates = [{"g": "I", "a": n + 1, "b": 0}]
                evs.append({"fn": "lc_blocks", "via": via, "g2": e2, "gates": gates})
        except Exception as ex:
            evs.append({"fn": "lc_decide", "via": via, "g2": e2, "dim": dim,
                        "out": {"err": type(ex).__name__, "yes": False}})
    if yes:
        inputs = [("lc_check:graph", lambda: (g1.copy(), g2.copy()))]
        if n >= 3:
            # the same pair as graphs whose nodes were INSERTED in another order than their labels (qubit k = k-th inserted
            # node is the library's convention, so in the position view these are exactly g1 and g2)
            order = list(range(n))
            while order == list(range(n)):
                rng.shuffle(order)

            def shuffled(g, order=order):
                h = nx.Graph()
                h.add_nodes_from(order)
                h.add_edges_from((order[a], order[b]) for a, b in g.edges())
                return h
            inputs.append(("lc_check:graph-shuffled-insertion", lambda: (shuffled(g1), shuffled(g2))))
        if full:
            inputs += [("lc_check:adjacency", lambda: (a1.copy(), a2.copy())),
                       ("lc_check:tableau", lambda: (get_clifford_tableau_from_graph(g1), get_clifford_tableau_from_graph(g2)))]
        for via, mk in inputs:
            try:
                s1, s2 = mk()
                ok, gl = lc_check(s1, s2, validate=rng.random() < 0.5)
                if not ok:
                    evs.append({"fn": "lc_decide", "via": via, "g2": e2, "dim": dim, "out": {"err": "", "yes": False}})
                else:
                    evs.append({"fn": "lc_gates", "via": via, "g2": e2,
                                "out": {"err": "", "gates": sg.gate_list_obs(gl)}})
            except Exception as ex:
                evs.append({"fn": "lc_gates", "via": via, "g2": e2, "out": {"err": type(ex).__name__, "gates": []}})
        try:
            seq = find_lc_operations(a1.copy(), a2.copy())
            evs.append({"fn": "lc_sequence", "via": "find_lc_operations", "g2": e2,
                        "out": {"err": "", "seq": [int(x) + 1 for x in seq]}})
        except Exception as ex:
            evs.append({"fn": "lc_sequence", "via": "find_lc_operations", "g2": e2,
                        "out": {"err": type(ex).__name__, "seq": []}})
    return evs


def _apply_pre(rows, pre):
    """harness helper: rows conjugated by the one-qubit gates of `pre` (application order); re-checked by TLC."""
    for g in pre:
        q = g["a"] - 1
        if g["g"] == "H":
            rows = sg.conj_rows(rows, "H", q)
        elif g["g"] == "P":
            rows = sg.conj_rows(rows, "S", q)
        else:                       # X flips the sign of rows with Z / Y on q, Z of rows with X / Y
            hit = (2, 3) if g["g"] == "X" else (1, 3)
            rows = [{"s": r["s"] ^ (1 if r["p"][q] in hit else 0), "p": list(r["p"])} for r in rows]
    return rows


def lc_state_events(g1, g2, n, rng, k):
    """lc_check on stabilizer STATES: local-Clifford images (with signs) of |g1> and |g2>, handed over as
    StabilizerTableau / CliffordTableau in random generating sets."""
    from graphiq.backends.stabilizer.functions.local_cliff_equi_check import lc_check
    evs = []
    for _ in range(k):
        pres, states, obs = [], [], []
        kind = rng.choice(["S", "T"])
        for g in (g1, g2):
            pre = [{"g": rng.choice(["H", "P", "X", "Z"]), "a": rng.randint(1, n), "b": 0} for _ in range(rng.randint(0, 2 * n))]
            rows = sg.random_regauge(rng, _apply_pre(sg.graph_generators(g, n), pre))
            if kind == "S":
                st = sg.stabilizer_tableau(rows)
                o = pj.stab_obs(st)
            else:
                st = pj.rows_to_tableau(sg.random_destabilizers(rng, rows), rows)
                o = pj.tab_obs(st)
            o["kind"] = kind
            pres.append(pre)
            states.append(st)
            obs.append(o)
        via = "lc_check:" + ("StabilizerTableau" if kind == "S" else "CliffordTableau")
        e = {"fn": "lc_states", "via": via, "g2": cz.graph_edges1(g2), "pre1": pres[0], "pre2": pres[1],
             "st1": obs[0], "st2": obs[1]}
        e["ga"], e["dim"] = [], 0
        try:
            ok, gl = lc_check(states[0].copy(), states[1].copy(), validate=rng.random() < 0.5)
            e["out"] = {"err": "", "yes": bool(ok), "gates": sg.gate_list_obs(gl) if ok else []}
            if not ok:
                # for the cause of a (possibly wrong) 'no': the graphs the decision procedure was run on
                from graphiq.backends.state_rep_conversion import state_to_graph
                ga, gb = state_to_graph(states[0].copy())[0], state_to_graph(states[1].copy())[0]
                e["ga"] = cz.graph_edges1(ga)
                e["dim"] = solution_dim(adj_of(ga, n), adj_of(gb, n))
        except Exception as ex:
            e["out"] = {"err": type(ex).__name__, "yes": False, "gates": []}
        evs.append(e)
    return evs


def local_comp_events(g1, n):
    from graphiq.backends.lc_equivalence_check import local_comp_graph
    from graphiq.backends.graph.state import Graph
    evs = []
    import random as _random
    order = list(range(n))
    _random.Random(n * 1000 + g1.number_of_edges()).shuffle(order)
    gsh = nx.Graph()                 # the same state handed over with another node INSERTION order (position view = g1)
    gsh.add_nodes_from(order)
    gsh.add_edges_from((order[a], order[b]) for a, b in g1.edges())
    for v in range(n):
        for via in ("local_comp_graph", "local_comp_graph:shuffled-insertion", "Graph.local_complementation:copy",
                    "Graph.local_complementation:inplace"):
            try:
                if via == "local_comp_graph":
                    out = local_comp_graph(g1.copy(), v)
                elif via == "local_comp_graph:shuffled-insertion":
                    # the function works on POSITIONS (adjacency matrix in insertion order, result labelled 0..n-1)
                    out = local_comp_graph(gsh.copy(), v)
                else:
                    gr = Graph(g1.copy())
                    res = gr.local_complementation(v, copy=via.endswith("copy"))
                    out = res.data
                    if via.endswith("copy") and cz.graph_edges1(gr.data) != cz.graph_edges1(g1):
                        evs.append({"fn": "local_comp", "via": via + ":original-mutated", "v": v + 1,
                                    "out": {"err": "", "bad": "original mutated", "n": n, "edges": []}})
                o = graph_out(out, n)
                o["err"] = ""
                evs.append({"fn": "local_comp", "via": via, "v": v + 1, "out": o})
            except Exception as ex:
                evs.append({"fn": "local_comp", "via": via, "v": v + 1,
                            "out": {"err": type(ex).__name__, "bad": "", "n": n, "edges": []}})
    return evs


def iso_class_events(g1, graphs, n, rng, k):
    """iso_graph_finder (all relabellings) and iso_equal_check (LC-equivalent to SOME isomorph of g2) from the base graph"""
    import graphiq.backends.lc_equivalence_check as lc
    evs = []
    try:
        res = lc.iso_graph_finder(g1.copy())
        out = {"err": "", "graphs": [graph_out(h, n) for h in res]}
    except Exception as ex:
        out = {"err": type(ex).__name__, "graphs": []}
    evs.append({"fn": "iso_graph_finder", "out": out})
    for g2 in rng.sample(graphs, min(k, len(graphs))):
        perm = list(range(n))
        rng.shuffle(perm)
        h2 = nx.Graph()
        h2.add_nodes_from(range(n))
        h2.add_edges_from((perm[a], perm[b]) for a, b in g2.edges())
        try:
            ok, h = lc.iso_equal_check(g1.copy(), h2.copy())
            out = {"err": "", "res": bool(ok), "graph": graph_out(h, n)}
        except Exception as ex:
            out = {"err": type(ex).__name__, "res": False, "graph": {"bad": "raised", "n": 0, "edges": []}}
        evs.append({"fn": "iso_equal_check", "g2": cz.graph_edges1(h2), "out": out, "connected": bool(nx.is_connected(g1)),
                    # (for any graph LC-equivalent to g1 the solution space has the dimension it has for g1 against itself)
                    "dim": int(solution_dim(adj_of(g1, n), adj_of(g1, n)))})
    return evs


def orbit_py(g, n):
    """harness-side orbit (only used to CHOOSE which second graphs to feed for n >= 5; TLC recomputes the truth)."""
    from itertools import combinations
    def key(h):
        return tuple(sorted(tuple(sorted(e)) for e in h.edges()))
    seen = {key(g): g}
    frontier = [g]
    while frontier:
        nxt = []
        for h in frontier:
            for v in range(n):
                k = h.copy()
                nb = list(h.neighbors(v))
                for a, b in combinations(nb, 2):
                    if k.has_edge(a, b):
                        k.remove_edge(a, b)
                    else:
                        k.add_edge(a, b)
                if key(k) not in seen:
                    seen[key(k)] = k
                    nxt.append(k)
        frontier = nxt
    return list(seen.values())


LC_CFG = "CONSTANT N = {n}\nSPECIFICATION Spec\nINVARIANT LCLemmas\nINVARIANT InOrbit\n"


def run(ctx):
    rng = ctx.rng
    ctx.mc("MC_LCOrbit", LC_CFG.format(n=4), tag="N4", expect_distinct=462)
    if not ctx.quick:
        ctx.mc("MC_LCOrbit", LC_CFG.format(n=5), tag="N5", expect_distinct=35206)
    traces, tid = [], 0
    for n in (1, 2, 3, 4):
        graphs = list(cz.all_graphs(n))
        for gi, g1 in enumerate(graphs):
            evs = local_comp_events(g1, n)
            for gj, g2 in enumerate(graphs):
                evs += decide_events(g1, g2, n, rng, full=(not ctx.quick) or ((gi + gj) % 5 == 0))
                if n >= 2 and ((not ctx.quick) or (gi + 2 * gj) % 7 == 0):
                    evs += lc_state_events(g1, g2, n, rng, 1 if ctx.quick else 2)
            if 2 <= n <= 4 and ((not ctx.quick) or gi % 3 == 0):
                evs += iso_class_events(g1, graphs, n, rng, 2 if ctx.quick else 6)
            tid += 1
            traces.append({"tid": tid, "meta": {"n": n, "base": cz.graph_edges1(g1)}, "n": n,
                           "base": cz.graph_edges1(g1), "need_orbit": True, "events": evs})
    if ctx.quick:
        # a sample at 6 vertices (solution spaces of dimension >= 5 start to occur for connected graphs here): the start
        # graph itself, members of its orbit and non-members
        for _ in range(30):
            n = 6
            g1 = nx.gnp_random_graph(n, rng.choice([0.4, 0.5, 0.6]), seed=rng.randrange(2 ** 31))
            if not nx.is_connected(g1):
                continue
            orb = orbit_py(g1, n)
            members = [g1] + rng.sample(orb, min(7, len(orb)))
            others = [nx.gnp_random_graph(n, 0.5, seed=rng.randrange(2 ** 31)) for _ in range(3)]
            evs = []
            for g2 in members + others:
                evs += decide_events(g1, g2, n, rng, full=False)
            tid += 1
            traces.append({"tid": tid, "meta": {"n": n, "base": cz.graph_edges1(g1)}, "n": n,
                           "base": cz.graph_edges1(g1), "need_orbit": True, "events": evs})
    # many equivalent pairs at 6 and 7 vertices, equivalence certified by a complementation sequence that TLC replays
    # (rare incompleteness: a fraction of a percent of the pairs is enough to matter)
    from drivers.c16 import lc_certs
    from graphiq.backends.lc_equivalence_check import is_lc_equivalent
    for n, count in ((6, 130 if ctx.quick else 1500), (7, 20 if ctx.quick else 400)):
        for _ in range(count):
            g1 = nx.gnp_random_graph(n, rng.choice([0.4, 0.5, 0.6]), seed=rng.randrange(2 ** 31))
            if not nx.is_connected(g1):
                continue
            orb = orbit_py(g1, n)
            members = [g1] + rng.sample(orb, min(7, len(orb)))
            certs = lc_certs(g1, members, n)
            a1 = adj_of(g1, n)
            evs = []
            for g2, cert in zip(members, certs):
                a2 = adj_of(g2, n)
                try:
                    ok, _sol = is_lc_equivalent(a1.copy(), a2.copy())
                    out = {"err": "", "yes": bool(ok)}
                except Exception as ex:
                    out = {"err": type(ex).__name__, "yes": False}
                evs.append({"fn": "lc_decide_cert", "via": "is_lc_equivalent:deterministic", "g2": cz.graph_edges1(g2),
                            "cert": cert, "dim": 0 if out["yes"] else solution_dim(a1, a2), "out": out})
            tid += 1
            traces.append({"tid": tid, "meta": {"n": n, "base": cz.graph_edges1(g1), "kind": "certified pairs"}, "n": n,
                           "base": cz.graph_edges1(g1), "need_orbit": False, "events": evs})
    if not ctx.quick:
        for n, starts in ((5, list(cz.all_graphs(5))), (6, None)):
            if starts is None:
                starts = [nx.gnp_random_graph(6, rng.choice([0.3, 0.5, 0.7]), seed=rng.randrange(2 ** 31))
                          for _ in range(200)]
            pool = list(cz.all_graphs(n)) if n == 5 else None
            for g1 in starts:
                orb = orbit_py(g1, n)
                members = orb if len(orb) <= 24 else rng.sample(orb, 24)
                others = []
                while len(others) < len(members):
                    h = rng.choice(pool) if pool else nx.gnp_random_graph(n, 0.5, seed=rng.randrange(2 ** 31))
                    others.append(h)
                evs = local_comp_events(g1, n)
                for g2 in members + others:
                    evs += decide_events(g1, g2, n, rng, full=rng.random() < 0.2)
                tid += 1
                traces.append({"tid": tid, "meta": {"n": n, "base": cz.graph_edges1(g1)}, "n": n,
                               "base": cz.graph_edges1(g1), "need_orbit": True, "events": evs})
    ctx.extra["start_graphs"] = len(traces)
    ctx.judge("Trace_Graphs", traces, label="G: LC decision / gates / sequence / complementation on enumerated graph pairs",
              xmx="4g")
