"""C06 - noisy simulation is physical, backend-independent and switchable.

J : random circuits (<= 3 qubits) with noise attached to their gates from the dyadic grid (depolarizing p in
    {0, 3/16, 3/8, 3/4, 1}, Pauli errors, photon loss r in {0, 1/4, 1/2, 1}, before or after the gate, control and target
    separately), given per gate and through noise MAPS (assign_noise); compiled by the real density-matrix compiler and by
    the real stabilizer compiler (mixture) with noise simulation on, plus the variants zero strength / empty map /
    switched off.  Trace_Noise.tla: PSD, TraceOK (= product of survival probabilities, computed by the spec from the
    annotations), BackendsAgree (exact Pauli vectors), NoiselessOK (= the spec's noiseless run).
"""
from __future__ import annotations

import copy
import warnings

import numpy as np

from engine import circuits as cz
from engine import project as pj

DEP = [(0, 1), (3, 16), (3, 8), (3, 4), (1, 1)]      # (1, 1): the endpoint of [0, 1]; weights 1/3 are reconstructed as rationals
LOSS = [(0, 1), (1, 4), (1, 2), (1, 1)]


def make_noise(spec):
    import graphiq.noise.noise_models as nm
    m = spec["m"]
    if m == "none":
        return nm.NoNoise()
    if m == "dep":
        nz = nm.DepolarizingNoise(spec["p"][0] / spec["p"][1])
    elif m == "pauli":
        nz = nm.PauliError("IXZY"[spec["letter"]])
    else:
        nz = nm.PhotonLoss(spec["p"][0] / spec["p"][1])
    nz.noise_parameters["After gate"] = spec["after"]
    return nz


BITS = {(0, 1): 0, (3, 16): 4, (3, 8): 3, (3, 4): 2, (1, 1): 2, (1, 4): 2, (1, 2): 1}


def rand_noise(rng, budget, allow_pauli=True):
    """one noise item; `budget` = [bits left]: TLC integers are 32 bit, so the product of all weight denominators of
    one circuit is kept below 2^26 (the generator stops adding weighted noise when the budget is used up)"""
    r = rng.random()
    after = rng.random() < 0.6
    if r < 0.45:
        return {"m": "none", "p": [0, 1], "letter": 0, "after": True}
    if r < 0.7:
        p = rng.choice([x for x in DEP if BITS[x] <= budget[0]])
        budget[0] -= BITS[p]
        return {"m": "dep", "p": list(p), "letter": 0, "after": after}
    if r < 0.85 and allow_pauli:
        return {"m": "pauli", "p": [0, 1], "letter": rng.choice([0, 1, 2, 3]), "after": after}
    p = rng.choice([x for x in LOSS if BITS[x] <= budget[0]])
    budget[0] -= BITS[p]
    return {"m": "loss", "p": list(p), "letter": 0, "after": after}


def build_noisy(n_e, n_p, n_c, prog, noise_specs, zero=False, strip=False):
    """circuit with the given per-op noise specs (list per op); zero: all strengths 0; strip: no noise at all"""
    from graphiq.circuit.circuit_dag import CircuitDAG
    c = CircuitDAG(n_emitter=n_e, n_photon=n_p, n_classical=n_c)
    for spec, nzs in zip(prog, noise_specs):
        if strip or nzs is None:
            c.add(cz.build_op(spec))
            continue
        nzs = copy.deepcopy(nzs)
        if zero:
            for z in nzs:
                z["p"] = [0, 1]
                z["letter"] = 0
        if spec["k"] in cz.TWOQ:
            noise = [make_noise(nzs[0]), make_noise(nzs[1])]
        elif spec["k"] == "OneQubitGateWrapper":
            noise = [make_noise(z) for z in nzs]
        else:
            noise = make_noise(nzs[0])
        c.add(cz.build_op(spec, noise=noise))
    return c


POOL = {}
COUNT = [0]


def final_obs(circuit, backend, setting, noise_on, seed):
    from graphiq.backends.stabilizer.compiler import StabilizerCompiler
    from graphiq.backends.density_matrix.compiler import DensityMatrixCompiler
    # one long-lived compiler object per backend for most compiles (noise switched on and off on the SAME object), a fresh
    # one every fifth time
    COUNT[0] += 1
    if backend not in POOL or COUNT[0] % 5 == 0:
        comp = StabilizerCompiler() if backend == "stabilizer" else DensityMatrixCompiler()
        POOL.setdefault(backend, comp)
    else:
        comp = POOL[backend]
    comp.measurement_determinism = setting
    comp.noise_simulation = noise_on
    np.random.seed(seed)
    try:
        with warnings.catch_warnings():
            warnings.simplefilter("ignore")
            st = comp.compile(circuit)
        o = cz.state_obs(st, circuit.n_quantum)
        psd = True
        if o.get("kind") == "pv":
            psd = pj.min_eig(st.rep_data.data) >= -1e-9
        return o, psd
    except Exception as ex:
        return {"err": type(ex).__name__, "kind": "pv", "bad": "", "n": circuit.n_quantum, "vec": []}, True


def trace_for(tid, rng, with_meas):
    n_e, n_p = rng.choice([(1, 1), (2, 1), (1, 2)])
    n_c = 1
    regs = [["e", i] for i in range(n_e)] + [["p", i] for i in range(n_p)]
    wr = cz.library_wrappers()
    prog, noise = [], []
    budget = [26]
    for _ in range(rng.randint(2, 8)):
        r = rng.random()
        if r < 0.4:
            prog.append({"k": rng.choice(cz.ONEQ), "r": [rng.choice(regs)], "c": None})
            noise.append([rand_noise(rng, budget)])
        elif r < 0.55:
            w = rng.choice(wr)
            prog.append({"k": "OneQubitGateWrapper", "r": [rng.choice(regs)], "c": None, "w": w})
            noise.append([rand_noise(rng, budget) for _ in w])
        elif r < 0.85 or not with_meas:
            a = ["e", rng.randrange(n_e)]
            b = rng.choice([x for x in regs if x != a])
            prog.append({"k": rng.choice(cz.TWOQ), "r": [a, b], "c": None})
            noise.append([rand_noise(rng, budget), rand_noise(rng, budget)])
        else:
            k = rng.choice(["MeasurementZ", "MeasurementCNOTandReset", "ClassicalCNOT"])
            if k == "MeasurementZ":
                prog.append({"k": k, "r": [rng.choice(regs)], "c": 0})
            else:
                a = ["e", rng.randrange(n_e)]
                b = rng.choice([x for x in regs if x != a])
                prog.append({"k": k, "r": [a, b], "c": 0})
            noise.append(None)
    setting = rng.choice([0, 1])
    seed = rng.randrange(2 ** 31)
    noisy = build_noisy(n_e, n_p, n_c, prog, noise)
    circ, nodes = cz.project_circuit(noisy)
    circ["order"] = cz.sequence_order(noisy, nodes)
    # annotate the projected ops with their noise specs (same order as the program: ops were added in order)
    by_pos = {}
    none = {"m": "none", "p": [0, 1], "letter": 0, "after": True}
    for k, n in enumerate(nodes):
        idx = sorted(nodes).index(n)          # node ids increase with the order of addition
        nzs = noise[idx]
        if nzs is None:
            circ["ops"][k]["noise"] = [none] * max(1, len(circ["ops"][k]["gates"]))
        else:
            circ["ops"][k]["noise"] = nzs
    # every second circuit is handed to the two compilers as the SAME object, one after the other (a compile must leave the
    # circuit - its noise descriptors included - as it found it)
    keep = (lambda c: c) if seed % 2 else (lambda c: c.copy())
    dm, psd = final_obs(keep(noisy), "dm", setting, True, seed)
    mix, _ = final_obs(keep(noisy), "stabilizer", setting, True, seed)
    zero = build_noisy(n_e, n_p, n_c, prog, noise, zero=True)
    bare = build_noisy(n_e, n_p, n_c, prog, noise, strip=True)
    nl_zero = [final_obs(zero.copy(), b, setting, True, seed)[0] for b in ("dm", "stabilizer")]
    empty_map = {"e": dict(), "p": dict(), "ee": dict(), "ep": dict()}
    try:
        emp = bare.assign_noise(empty_map)
        nl_empty = [final_obs(emp.copy(), b, setting, True, seed)[0] for b in ("dm", "stabilizer")]
    except Exception as ex:
        nl_empty = [{"err": type(ex).__name__, "kind": "pv", "bad": "", "n": 0, "vec": []}]
    nl_off = [final_obs(noisy.copy(), b, setting, False, seed)[0] for b in ("dm", "stabilizer")]
    return {"tid": tid, "meta": {"n_e": n_e, "n_p": n_p, "program": prog, "noise": noise, "setting": setting},
            "circ": circ, "setting": setting, "dm": dm, "dm_psd": bool(psd), "mix": mix,
            "nl_zero": nl_zero, "nl_empty": nl_empty, "nl_off": nl_off}


def run(ctx):
    rng = ctx.rng
    traces = []
    n = 80 if ctx.quick else 3000
    for i in range(n):
        traces.append(trace_for(i + 1, rng, with_meas=(i % 3 == 0)))
    ctx.judge("Trace_Noise", traces, label="J: noisy compilation by both backends + noiseless variants", xmx="4g")
    ctx.assumptions.append("noise strengths on the dyadic grid only (exact in IEEE doubles and in the spec's rationals); "
                           "PSD by numpy eigenvalues (>= -1e-9) in the projection; <= 3 qubits")
