"""C04 - generated and mutated circuits respect the photonic emission constraints.

M : MC_Moves - the six mutation moves as guarded edits of the wire machine, all move sequences up to a depth bound
    from the evolutionary solver's initial circuit shape: EmissionShape, acyclicity, fixed operations never removed.
J : the REAL move functions of EvolutionarySolver / HybridEvolutionarySolver applied for long seeded histories to
    real initial circuits (evolutionary initialisation with random assignments, time-reversed solver outputs);
    after every move the candidate pairs of the selectors and the complete circuit are judged by Trace_Moves.tla.
    Solver outputs (time-reversed, alternate-target results, hall of fame of short real runs): EmissionShape via
    Trace_CircuitAll / Trace_Moves init clause.
"""
from __future__ import annotations

import warnings

import networkx as nx
import numpy as np

from engine import circuits as cz
from engine import project as pj
from drivers import c02

MOVES = ["add_emitter_one_qubit_op", "add_photon_one_qubit_op", "replace_photon_one_qubit_op", "add_emitter_cnot",
         "remove_op", "add_measurement_cnot_and_reset"]


def make_solver(n_e, n_p, hybrid=False):
    from graphiq.backends.stabilizer.compiler import StabilizerCompiler
    from graphiq.metrics import Infidelity
    from graphiq.solvers.evolutionary_solver import EvolutionarySolver
    from graphiq.state import QuantumState
    g = nx.path_graph(max(n_p, 1))
    target = cz.target_state(g, "s")
    return EvolutionarySolver(target=target, metric=Infidelity(target), compiler=StabilizerCompiler(),
                              n_emitter=n_e, n_photon=n_p)


def pairs_obs(pairs, limit, rng):
    pairs = list(pairs)
    if len(pairs) > limit:
        pairs = rng.sample(pairs, limit)
    return [[[cz._nid(e[0]), cz._nid(e[1]), str(e[2])] for e in pr] for pr in pairs]


def history(tid, rng, solver, circuit, steps, meta):
    init = cz.dag_obs(circuit, [])
    events = []
    for _ in range(steps):
        move = rng.choice(MOVES)
        try:
            cc = solver._select_possible_cnot_position(circuit)
            cm = solver._select_possible_measurement_position(circuit)
        except Exception:
            cc, cm = [], []
        e = {"move": move, "cands_cnot": pairs_obs(cc, 12, rng), "cands_meas": pairs_obs(cm, 12, rng)}
        try:
            with warnings.catch_warnings():
                warnings.simplefilter("ignore")
                if move == "remove_op" and rng.random() < 0.5:
                    # the caller-chosen form of the move: any operation node, also a protected one (must be a no-op then)
                    from graphiq.circuit import ops as gops
                    cand = [n for n in circuit.dag.nodes
                            if not isinstance(circuit.dag.nodes[n]["op"], gops.InputOutputOperationBase)]
                    if cand:
                        solver.remove_op(circuit, node=rng.choice(cand))
                else:
                    getattr(solver, move)(circuit)
                circuit.validate()
            e["obs"] = cz.dag_obs(circuit, [])
        except Exception as ex:
            e["obs"] = pj.err_obs(ex)
        events.append(e)
        if e["obs"]["err"]:
            break
    return {"tid": tid, "meta": meta, "init": init, "events": events}


MC_CFG = """CONSTANTS
  NE = {ne}
  NP = {np}
  Depth = {depth}
  MaxOps = {maxops}
SPECIFICATION Spec
INVARIANT EmissionShapeInv
INVARIANT AcyclicInv
INVARIANT FixedStay
INVARIANT OrdConsistent
CONSTRAINT Bound
"""


def run(ctx):
    rng = ctx.rng
    np.random.seed(ctx.seed % (2 ** 31))
    ctx.mc("MC_Moves", MC_CFG.format(ne=2, np=2, depth=3 if ctx.quick else 4, maxops=9 if ctx.quick else 10), tag="2e2p", coverage=True)
    traces, tid = [], 0
    steps = 60 if ctx.quick else 250
    # evolutionary initial circuits
    for n_e, n_p in ((1, 2), (2, 2), (2, 3), (3, 3)) if ctx.quick else ((1, 2), (2, 2), (2, 3), (3, 3), (2, 4), (3, 4)) * 6:
        solver = make_solver(n_e, n_p)
        circuit = solver.initialization(solver.get_emission_assignment(n_p, n_e),
                                        solver.get_measurement_assignment(n_p, n_e))
        tid += 1
        traces.append(history(tid, rng, solver, circuit, steps, {"origin": "evolutionary-init", "n_e": n_e, "n_p": n_p}))
    # time-reversed circuits (the hybrid solver's starting point)
    graphs = [nx.path_graph(3), nx.cycle_graph(4), nx.star_graph(3), nx.complete_graph(4)]
    if not ctx.quick:
        graphs += [g for g in cz.all_graphs(4) if nx.is_connected(g)] + \
                  [nx.gnp_random_graph(5, 0.6, seed=rng.randrange(2 ** 31)) for _ in range(20)]
        graphs = [g for g in graphs if all(d > 0 for _, d in g.degree())]
    for g in graphs:
        rec, circuit = c02.solve(g, "g", "stabilizer")
        if circuit is None:
            continue
        solver = make_solver(circuit.n_emitters, circuit.n_photons)
        tid += 1
        traces.append(history(tid, rng, solver, circuit, steps,
                              {"origin": "time-reversed", "edges": cz.graph_edges1(g)}))
    ctx.judge("Trace_Moves", traces, label="J: real mutation moves on real circuits", xmx="6g")
    # the circuits the deterministic solver hands out (also the starting points of the alternate-target and hybrid solvers):
    # every connected 4-vertex graph and random 5 - 6 vertex graphs, judged by Trace_CircuitAll (EmissionShape, EmittedOnce)
    recs = []
    targets = [g for g in cz.all_graphs(4) if nx.is_connected(g)]
    for n, cnt in ((5, 25 if ctx.quick else 300), (6, 10 if ctx.quick else 150)):
        while cnt:
            g = nx.gnp_random_graph(n, rng.choice([0.4, 0.6]), seed=rng.randrange(2 ** 31))
            if nx.is_connected(g):
                targets.append(g)
                cnt -= 1
    for k, g in enumerate(targets):
        rec, _circuit = c02.solve(g, "g", "stabilizer")
        rec.update({"tid": 100000 + k, "meta": {"n": g.number_of_nodes(), "edges": rec["target"]["edges"], "kind": "solver output"},
                    "events": [], "check_emitters": False})
        recs.append(rec)
    ctx.judge("Trace_CircuitAll", recs, label="M: deterministic-solver circuits: emission shape over all outcome branches",
              mode="forall")
