---------------------------- MODULE LC2 ----------------------------
EXTENDS Naturals, FiniteSets, TLC
CONSTANT N
V == 1..N
Pairs == {<<u, v>> \in V \X V : u < v}
E(G, u, v) == IF u < v THEN G[<<u, v>>] ELSE IF v < u THEN G[<<v, u>>] ELSE FALSE
LocalComp(G, w) == [e \in Pairs |-> IF E(G, w, e[1]) /\ E(G, w, e[2]) THEN ~G[e] ELSE G[e]]
VARIABLES g0, g
Init == g0 \in [Pairs -> BOOLEAN] /\ g = g0
Next == \E v \in V : g' = LocalComp(g, v) /\ g0' = g0
Spec == Init /\ [][Next]_<<g0, g>>
Involution == \A v \in V : LocalComp(LocalComp(g, v), v) = g
=============================================================================
