---------------------------- MODULE Ens ----------------------------
EXTENDS Pauli, Json
RECURSIVE Gcd(_, _)
Gcd(a, b) == IF b = 0 THEN a ELSE Gcd(b, a % b)
Abs(a) == IF a < 0 THEN -a ELSE a
Norm(n, d) == LET g == Gcd(Abs(n), d) IN IF n = 0 THEN <<0, 1>> ELSE <<n \div g, d \div g>>
RAdd(a, b) == Norm(a[1] * b[2] + b[1] * a[2], a[2] * b[2])
RMul(a, b) == Norm(a[1] * b[1], a[2] * b[2])
RNeg(a) == <<-a[1], a[2]>>
RECURSIVE Close(_)
Close(S) == LET T == S \cup {MulH(g, h) : g \in S, h \in S} IN IF T = S THEN S ELSE Close(T)
ZeroGroup == Close({SP(0, ZAt(a)) : a \in Q} \cup {SP(0, IdP)})
\* ensemble: set of records [g |-> group, w |-> rational]; merged by group
Groups(ens) == {b.g : b \in ens}
RSum(S) == FoldSet(LAMBDA x, acc : RAdd(x.w, acc), <<0, 1>>, S)
Merge(ens) == {[g |-> G, w |-> RSum({b \in ens : b.g = G})] : G \in Groups(ens)}
MapG(ens, f(_)) == Merge({[g |-> {f(x) : x \in b.g}, w |-> b.w] : b \in ens})
ApplyX(g, a) == ApplyH(ApplyP(ApplyP(ApplyH(g, a), a), a), a)
ApplyZ(g, a) == ApplyP(ApplyP(g, a), a)
ApplyY(g, a) == ApplyZ(ApplyX(g, a), a)
Scale(ens, r) == {[g |-> b.g, w |-> RMul(b.w, r)] : b \in ens}
\* tag branches before merging so equal groups from different paulis are summed, not collapsed
Depol(ens, a, p) ==
  LET q == RMul(p, <<1, 3>>)
      tagged == {[t |-> 0, g |-> b.g, w |-> RMul(b.w, RAdd(<<1, 1>>, RNeg(p)))] : b \in ens}
           \cup {[t |-> 1, g |-> {ApplyX(x, a) : x \in b.g}, w |-> RMul(b.w, q)] : b \in ens}
           \cup {[t |-> 2, g |-> {ApplyY(x, a) : x \in b.g}, w |-> RMul(b.w, q)] : b \in ens}
           \cup {[t |-> 3, g |-> {ApplyZ(x, a) : x \in b.g}, w |-> RMul(b.w, q)] : b \in ens}
  IN {[g |-> G, w |-> FoldSet(LAMBDA x, acc : RAdd(x.w, acc), <<0, 1>>, {b \in tagged : b.g = G})] : G \in {b.g : b \in tagged}}
PV(ens, P) == FoldSet(LAMBDA b, acc : RAdd(acc, IF SP(0, P) \in b.g THEN b.w ELSE IF SP(1, P) \in b.g THEN RNeg(b.w) ELSE <<0, 1>>), <<0, 1>>, ens)
T == JsonDeserialize("ens.json")
VARIABLES ens, l
Init == l = 1 /\ ens = {[g |-> ZeroGroup, w |-> <<1, 1>>]}
Step(e) == CASE e.op = "H" -> ens' = MapG(ens, LAMBDA x : ApplyH(x, e.a))
             [] e.op = "P" -> ens' = MapG(ens, LAMBDA x : ApplyP(x, e.a))
             [] e.op = "CX" -> ens' = MapG(ens, LAMBDA x : ApplyCX(x, e.a, e.b))
             [] e.op = "DEP" -> ens' = Depol(ens, e.a, <<e.pn, e.pd>>)
             [] e.op = "LOSS" -> ens' = Scale(ens, <<e.pn, e.pd>>)
Next == l <= Len(T.steps) /\ Step(T.steps[l]) /\ l' = l + 1
Spec == Init /\ [][Next]_<<ens, l>>
FinalOK == (l = Len(T.steps) + 1) =>
   \A i \in 1..Len(T.pv) : PV(ens, [q \in Q |-> T.pv[i].p[q]]) = <<T.pv[i].n, T.pv[i].d>>
Size == (l = Len(T.steps) + 1) => PrintT(<<"branches", Cardinality(ens)>>)
=============================================================================
