---------------------------- MODULE Dag ----------------------------
EXTENDS Naturals, Sequences, FiniteSets, TLC
CONSTANTS Regs, MaxOps, Depth
\* ops: 1-qubit kind "g" on one reg, 2-qubit kind "cx" on two distinct regs
VARIABLES wire, op, nextId, steps
vars == <<wire, op, nextId, steps>>
Init == wire = [r \in Regs |-> <<>>] /\ op = <<>> /\ nextId = 1 /\ steps = 0
Ids == DOMAIN op
Live == UNION {{wire[r][i] : i \in DOMAIN wire[r]} : r \in Regs}
InsertSeq(s, i, x) == SubSeq(s, 1, i - 1) \o <<x>> \o SubSeq(s, i, Len(s))
RemoveFrom(s, x) == SelectSeq(s, LAMBDA y : y # x)
\* precedence relation from wires
Before(a, b) == \E r \in Regs : \E i, j \in DOMAIN wire[r] : i < j /\ wire[r][i] = a /\ wire[r][j] = b
RECURSIVE Reach(_, _)
Reach(S, k) == IF k = 0 THEN S ELSE Reach(S \cup {b \in Live : \E a \in S : Before(a, b)}, k - 1)
Desc(a) == Reach({a}, Cardinality(Live))
Acyclic == \A a \in Live : ~(\E b \in Desc(a) : Before(b, a))
\* position i on wire r means "insert before current element i" (1..Len+1)
Insert1(r, i) == /\ Cardinality(Live) < MaxOps
                 /\ wire' = [wire EXCEPT ![r] = InsertSeq(@, i, nextId)]
                 /\ op' = Append(op, [k |-> "g", q |-> <<r>>]) /\ nextId' = nextId + 1
\* compat: node after pos on r2 must not (reflexively) precede node before pos on r1 and vice versa
PredOf(r, i) == IF i = 1 THEN 0 ELSE wire[r][i - 1]
SuccOf(r, i) == IF i > Len(wire[r]) THEN 0 ELSE wire[r][i]
Leq(a, b) == a # 0 /\ b # 0 /\ (a = b \/ b \in Desc(a))
Compat(r1, i, r2, j) == ~Leq(SuccOf(r2, j), PredOf(r1, i)) /\ ~Leq(SuccOf(r1, i), PredOf(r2, j))
Insert2(r1, i, r2, j) == /\ r1 # r2 /\ Cardinality(Live) < MaxOps /\ Compat(r1, i, r2, j)
                         /\ wire' = [wire EXCEPT ![r1] = InsertSeq(@, i, nextId), ![r2] = InsertSeq(@, j, nextId)]
                         /\ op' = Append(op, [k |-> "cx", q |-> <<r1, r2>>]) /\ nextId' = nextId + 1
Remove(a) == /\ wire' = [r \in Regs |-> RemoveFrom(wire[r], a)] /\ UNCHANGED <<op, nextId>>
Next == /\ steps < Depth /\ steps' = steps + 1
        /\ \/ \E r \in Regs : \E i \in 1..(Len(wire[r]) + 1) : Insert1(r, i)
           \/ \E r1, r2 \in Regs : \E i \in 1..(Len(wire[r1]) + 1), j \in 1..(Len(wire[r2]) + 1) : Insert2(r1, i, r2, j)
           \/ \E a \in Live : Remove(a)
Spec == Init /\ [][Next]_vars
=============================================================================
