---------------------------- MODULE Tab ----------------------------
EXTENDS Pauli, Json
VARIABLES rows
Init == rows = [i \in 1..(2*N) |-> IF i <= N THEN SP(0, XAt(i)) ELSE SP(0, ZAt(i - N))]
H(a) == rows' = [i \in 1..(2*N) |-> ApplyH(rows[i], a)]
P(a) == rows' = [i \in 1..(2*N) |-> ApplyP(rows[i], a)]
CX(c, t) == c # t /\ rows' = [i \in 1..(2*N) |-> ApplyCX(rows[i], c, t)]
Next == \/ \E a \in Q : H(a) \/ P(a)
        \/ \E c, t \in Q : CX(c, t)
Spec == Init /\ [][Next]_rows
Paired == \A i, j \in 1..N : /\ Commute(rows[i], rows[j]) /\ Commute(rows[N+i], rows[N+j])
                             /\ (Commute(rows[i], rows[N+j]) <=> i # j)
Dump == PrintT(<<"ST", ToJson(rows)>>)
=============================================================================
