---------------------------- MODULE Big ----------------------------
EXTENDS Pauli, Json
T == JsonDeserialize("big.json")
VARIABLES rows, l
Init == l = 1 /\ rows = [i \in 1..(2*N) |-> IF i <= N THEN SP(0, XAt(i)) ELSE SP(0, ZAt(i - N))]
Step(e) == CASE e.op = "H" -> rows' = [i \in 1..(2*N) |-> ApplyH(rows[i], e.a)]
             [] e.op = "P" -> rows' = [i \in 1..(2*N) |-> ApplyP(rows[i], e.a)]
             [] e.op = "CX" -> rows' = [i \in 1..(2*N) |-> ApplyCX(rows[i], e.a, e.b)]
Next == l <= Len(T.steps) /\ Step(T.steps[l]) /\ l' = l + 1
Spec == Init /\ [][Next]_<<rows, l>>
SnapOK == (l = 1) => \A i \in 1..(2*N) : rows[i].s = T.snap[i].s /\ \A q \in Q : rows[i].p[q] = T.snap[i].p[q]
\* symplectic check on full tableau at the end only
Paired == (l = Len(T.steps) + 1) => \A i, j \in 1..N : /\ Commute(rows[i], rows[j]) /\ Commute(rows[N+i], rows[N+j])
                             /\ (Commute(rows[i], rows[N+j]) <=> i # j)
=============================================================================
