---------------------------- MODULE Tr ----------------------------
EXTENDS Stab, Json, IOUtils, TLCExt
Traces == JsonDeserialize("trace.json")
VARIABLES tid, l
tvars == <<grp, hist, tid, l>>
TInit == /\ tid \in 1..Len(Traces) /\ l = 1 /\ grp = ZeroGroup /\ hist = 0
Step(e) == CASE e.op = "H" -> H(e.a)
             [] e.op = "P" -> P(e.a)
             [] e.op = "CX" -> CX(e.a, e.b)
             [] e.op = "M" -> (MeasZ(e.a, e.m) \/ (~ENABLED MeasZ(e.a, e.m) /\ MeasZ(e.a, 1 - e.m)))
TNext == /\ l <= Len(Traces[tid].steps)
         /\ Step(Traces[tid].steps[l])
         /\ l' = l + 1 /\ tid' = tid /\ hist' = hist
TSpec == TInit /\ [][TNext]_tvars
Done == (l = Len(Traces[tid].steps) + 1) => TLCSet(tid, TRUE)
Post == \A t \in 1..Len(Traces) : TLCGet(t) = TRUE
=============================================================================
