---------------------------- MODULE Pauli ----------------------------
EXTENDS Naturals, Integers, Sequences, FiniteSets, FiniteSetsExt, TLC
CONSTANT N
Q == 1..N
\* single-qubit Pauli letters: 0=I, 1=X, 2=Z, 3=Y ; (x,z) bits: X=(1,0) Z=(0,1) Y=(1,1)
XB(p) == IF p = 1 \/ p = 3 THEN 1 ELSE 0
ZB(p) == IF p = 2 \/ p = 3 THEN 1 ELSE 0
Letter(x, z) == IF x = 1 THEN (IF z = 1 THEN 3 ELSE 1) ELSE (IF z = 1 THEN 2 ELSE 0)
\* a signed Pauli: [s |-> 0..1 (sign bit, Hermitian elements only), p |-> [Q -> 0..3]]
\* product of single letters a*b = i^k c ; k mod 4 table (Y = iXZ convention: hermitian letters)
PhaseK(a, b) ==
  IF a = 0 \/ b = 0 \/ a = b THEN 0
  ELSE IF (a = 1 /\ b = 3) \/ (a = 3 /\ b = 2) \/ (a = 2 /\ b = 1) THEN 1   \* XY=iZ, YZ=iX, ZX=iY
  ELSE 3
Xor(a, b) == Letter((XB(a) + XB(b)) % 2, (ZB(a) + ZB(b)) % 2)
SumK(g, h, q) == FoldSet(LAMBDA x, acc : acc + PhaseK(g[x], h[x]), 0, Q)
\* product of two commuting hermitian signed Paulis is hermitian: total k is even
Mul(g, h) == LET k == (SumK(g.p, h.p, N) + 2 * g.s + 2 * h.s) % 4
             IN [s |-> k \div 2, p |-> [q \in Q |-> Xor(g.p[q], h.p[q])], k |-> k % 2]
Anti1(a, b) == a # 0 /\ b # 0 /\ a # b
AntiCount(g, h, q) == Cardinality({x \in Q : Anti1(g[x], h[x])})
Commute(g, h) == AntiCount(g.p, h.p, N) % 2 = 0
SP(s, p) == [s |-> s, p |-> p]
MulH(g, h) == LET m == Mul(g, h) IN SP(m.s, m.p)
IdP == [q \in Q |-> 0]
ZAt(a) == [q \in Q |-> IF q = a THEN 2 ELSE 0]
XAt(a) == [q \in Q |-> IF q = a THEN 1 ELSE 0]
\* conjugation by gates on single letter: returns <<letter, signflip>>
HConj(a) == CASE a = 0 -> <<0, 0>> [] a = 1 -> <<2, 0>> [] a = 2 -> <<1, 0>> [] a = 3 -> <<3, 1>>
PConj(a) == CASE a = 0 -> <<0, 0>> [] a = 1 -> <<3, 0>> [] a = 2 -> <<2, 0>> [] a = 3 -> <<1, 1>>  \* P X P^ = Y, P Y P^ = -X
ApplyH(g, a) == LET c == HConj(g.p[a]) IN SP((g.s + c[2]) % 2, [g.p EXCEPT ![a] = c[1]])
ApplyP(g, a) == LET c == PConj(g.p[a]) IN SP((g.s + c[2]) % 2, [g.p EXCEPT ![a] = c[1]])
\* CNOT c->t : X_c -> X_c X_t ; Z_t -> Z_c Z_t ; X_t, Z_c fixed. sign: flips iff x_c z_t (x_t xor z_c xor 1)
ApplyCX(g, c, t) ==
  LET xc == XB(g.p[c]) zc == ZB(g.p[c]) xt == XB(g.p[t]) zt == ZB(g.p[t])
      fl == xc * zt * ((xt + zc + 1) % 2)
  IN SP((g.s + fl) % 2, [g.p EXCEPT ![c] = Letter(xc, (zc + zt) % 2), ![t] = Letter((xt + xc) % 2, zt)])
=============================================================================
