----------------------------- MODULE Trace_Cliff -----------------------------
(***************************************************************************)
(* C20: judgements on the library of single-qubit Clifford gates.          *)
(*  lib        the 24 gate lists of one_qubit_cliffords() with the signed- *)
(*             axis map of the matrix the library assigns to each list     *)
(*  simplify   simplify_local_clifford(word) = out list                    *)
(*  reject     find_local_clifford_by_matrix on a non-Clifford matrix      *)
(***************************************************************************)
EXTENDS Cliff1, FiniteSets, Json, IOUtils
Traces == JsonDeserialize(IOEnv.TRACE_FILE)
VARIABLES tid, l, why, failed
vars == <<tid, l, why, failed>>
Events(t) == Traces[t].events

\* observed signed-axis map: [xs, xa, zs, za] (sign bit, letter of the image of X and of Z)
ObsElem(m) == Elem(SP(m.xs, <<m.xa>>), SP(m.zs, <<m.za>>))
LibSet(e) == {ElemOfList(e.lists[k]) : k \in DOMAIN e.lists}

Verdict(e) ==
  CASE e.fn = "lib" ->
         IF e.err # "" THEN "Raised"
         ELSE IF Len(e.lists) # 24 THEN "Exactly24"
         ELSE IF \E k \in DOMAIN e.lists : ObsElem(e.maps[k]) # ElemOfList(e.lists[k]) THEN "MatrixOK"
         ELSE IF Cardinality(LibSet(e)) # 24 THEN "Distinct24"
         \* closed under multiplication: every product of two members is (equal to) a member
         ELSE IF \E a, b \in LibSet(e) : Compose(a, b) \notin LibSet(e) THEN "Closed"
         ELSE "ok"
    [] e.fn = "simplify" ->
         IF e.out.err # "" THEN "Raised"
         ELSE IF ElemOfList(e.out.list) # ElemOfList(e.word) THEN "SimplifyEqualsProduct"
         ELSE IF e.out.index = 0 THEN "SimplifyReturnsMember"
         ELSE "ok"
    [] e.fn = "reject" -> IF e.raised THEN "ok" ELSE "NonCliffordRejected"
    [] OTHER -> "HarnessUnknownFn"

Init == tid \in 1..Len(Traces) /\ l = 1 /\ why = "ok" /\ failed = FALSE
Next == /\ l <= Len(Events(tid))
        /\ LET v == Verdict(Events(tid)[l]) IN why' = v /\ failed' = (failed \/ v # "ok")
        /\ l' = l + 1 /\ tid' = tid
TraceSpec == Init /\ [][Next]_vars
Report ==
  /\ (why # "ok") => PrintT(<<"REJECT", Traces[tid].tid, l - 1, why, Events(tid)[l - 1].fn>>)
  /\ (~failed /\ l = Len(Events(tid)) + 1) => PrintT(<<"DONE", Traces[tid].tid>>)
=============================================================================
