----------------------------- MODULE ResultTable -----------------------------
(***************************************************************************)
(* Extension X04: the solver result table (solvers/solver_result.py, class *)
(* SolverResult): columns "circuit", "circuit_id" and user properties, one *)
(* row per circuit.  Abstract state: [cols |-> sequence of column names,   *)
(* rows |-> sequence of rows], a row being a function column -> value      *)
(* (values are integers here; -1 stands for None).  Operators return       *)
(* <<next state, error>>.                                                  *)
(***************************************************************************)
EXTENDS Naturals, Integers, Sequences, FiniteSets
None == -1
ColSet(s) == {s.cols[k] : k \in DOMAIN s.cols}
WellFormed(s) ==
  /\ Cardinality(ColSet(s)) = Len(s.cols)
  /\ \A i \in DOMAIN s.rows : DOMAIN s.rows[i] = ColSet(s)
Column(s, c) == [i \in DOMAIN s.rows |-> s.rows[i][c]]

\* result[key] = values : replaces or appends a column; the length must be the number of rows
SetColumn(s, c, vals) ==
  IF Len(vals) # Len(s.rows) THEN <<s, "ValueError">>
  ELSE <<[cols |-> IF c \in ColSet(s) THEN s.cols ELSE Append(s.cols, c),
          rows |-> [i \in DOMAIN s.rows |-> [d \in ColSet(s) \cup {c} |-> IF d = c THEN vals[i] ELSE s.rows[i][d]]]], "">>
\* add_properties(name): a new column of None; an existing PROPERTY is left alone
AddProperty(s, c, isprop) ==
  IF isprop THEN <<s, "">> ELSE SetColumn(s, c, [i \in DOMAIN s.rows |-> None])
\* sort_by(column): rows ordered by that column, ties keep their relative order (a stable sort)
IsStableSortOf(new, old, c) ==
  /\ Len(new) = Len(old)
  /\ \E p \in [1..Len(old) -> 1..Len(old)] :
       /\ {p[i] : i \in 1..Len(old)} = 1..Len(old)
       /\ \A i \in 1..Len(old) : new[i] = old[p[i]]
       /\ \A i, j \in 1..Len(old) : i < j => (old[p[i]][c] < old[p[j]][c] \/ (old[p[i]][c] = old[p[j]][c] /\ p[i] < p[j]))
\* get_index_with_column_value(column, value): 0-based indices in ascending order
IndicesWith(s, c, v) == {i - 1 : i \in {j \in DOMAIN s.rows : s.rows[j][c] = v}}
=============================================================================
