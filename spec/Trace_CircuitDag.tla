-------------------------- MODULE Trace_CircuitDag --------------------------
(***************************************************************************)
(* Role J / G for C12: edit histories on a real CircuitDAG.  Every event   *)
(* carries the edit (name + arguments) and the COMPLETE projected          *)
(* structure after it.  The spec state is the previous observation; an     *)
(* event is accepted iff                                                   *)
(*   - the observed structure satisfies every C12 invariant (StructClause) *)
(*   - the edit put the operation where it was asked to and moved nothing  *)
(*     else (SuccessorOK / OpsTableOK), for add / insert_at / remove /     *)
(*     replace / add_reg; the rewrites unwrap / group / rm_identity are    *)
(*     held to the invariants here and to state preservation in C13        *)
(*   - register counts change only where the edit says so (RegsOnlyGrow)   *)
(*   - an illegal request (non-contiguous register) raises and changes     *)
(*     nothing (MustRaise / ErrorChangedState).                            *)
(***************************************************************************)
EXTENDS CircuitDag, Json, IOUtils

Traces == JsonDeserialize(IOEnv.TRACE_FILE)

VARIABLES tid, l, why, cur
vars == <<tid, l, why, cur>>
Events(t) == Traces[t].events

OpIds(o) == {n \in NodeIds(o) : NodeRec(o, n).io = ""}
NewOps(pre, post) == OpIds(post) \ OpIds(pre)
Kept(pre, post) == OpIds(post) \cap OpIds(pre)
SameNode(pre, post, n) ==
  LET a == NodeRec(pre, n) b == NodeRec(post, n) IN Content(a) = Content(b) /\ a.labels = b.labels /\ a.qt = b.qt
\* wires of `pre` extended by empty wires for registers that exist in `post`
ExtWires(pre, post) ==
  [key \in AllKeys(post) |-> IF key \in AllKeys(pre) THEN Wire(pre, key) ELSE <<>>]
RegsGeq(pre, post) == post.regs.e >= pre.regs.e /\ post.regs.p >= pre.regs.p /\ post.regs.c >= pre.regs.c

\* the registers an operation needs, as [e, p, c] counts (max index + 1)
Need(op, t) == LET idx == {op.qi[k] : k \in {j \in DOMAIN op.qt : op.qt[j] = t}} IN
               IF idx = {} THEN 0 ELSE Max(idx) + 1
NeedC(op) == IF Len(op.ci) = 0 THEN 0 ELSE Max({op.ci[k] : k \in DOMAIN op.ci}) + 1
\* contiguous numbering: every register index the op names is at most the current count of its type,
\* taking into account registers the same op adds first (it adds them in increasing order)
Contiguous(pre, op) ==
  /\ \A t \in {"e", "p"} :
       LET idx == {op.qi[k] : k \in {j \in DOMAIN op.qt : op.qt[j] = t}} cnt == pre.regs[t] IN
       \A i \in idx : i <= cnt \/ \A m \in cnt..(i - 1) : m \in idx
  /\ \A k \in DOMAIN op.ci : op.ci[k] <= pre.regs.c
ExpectedRegs(pre, op) ==
  [e |-> Max({pre.regs.e, Need(op, "e")}), p |-> Max({pre.regs.p, Need(op, "p")}),
   c |-> Max({pre.regs.c, NeedC(op)})]

OpContent(op) == [kind |-> op.kind, q |-> op.q, c |-> op.c, gates |-> op.gates]

Unchanged(pre, post) ==
  /\ post.regs = pre.regs
  /\ SeqToSet(post.edges) = SeqToSet(pre.edges)
  /\ NodeIds(post) = NodeIds(pre)

EditClause(pre, e) ==
  LET post == e.obs IN
  CASE e.ev = "add" ->
         IF ~Contiguous(pre, e.op) THEN
            (IF post.err = "" THEN "MustRaise" ELSE "ok")
         ELSE IF post.err # "" THEN "Raised"
         ELSE LET new == NewOps(pre, post) IN
           IF post.regs # ExpectedRegs(pre, e.op) THEN "RegsOnlyGrow"
           ELSE IF Cardinality(new) # 1 \/ Kept(pre, post) # OpIds(pre) THEN "SuccessorOK"
           ELSE LET id == CHOOSE n \in new : TRUE IN
             IF Wires(post) # AddW(ExtWires(pre, post), id, e.op.q, e.op.c) THEN "SuccessorOK"
             ELSE IF Content(NodeRec(post, id)) # OpContent(e.op) \/ \E n \in OpIds(pre) : ~SameNode(pre, post, n)
                  THEN "OpsTableOK"
             ELSE "ok"
    [] e.ev = "insert_at" ->
         IF post.err # "" THEN "Raised"
         ELSE LET new == NewOps(pre, post)
                  pos == [key \in SeqToSet(e.op.q) |->
                            EdgePos(pre, e.edges[CHOOSE k \in DOMAIN e.edges : e.edges[k][3] = key])]
              IN
           IF post.regs.e # pre.regs.e \/ post.regs.p # pre.regs.p \/ post.regs.c # Max({pre.regs.c, NeedC(e.op)})
              THEN "RegsOnlyGrow"
           ELSE IF Cardinality(new) # 1 \/ Kept(pre, post) # OpIds(pre) THEN "SuccessorOK"
           ELSE LET id == CHOOSE n \in new : TRUE IN
             IF Wires(post) # InsertW(ExtWires(pre, post), id, pos) THEN "SuccessorOK"
             ELSE IF Content(NodeRec(post, id)) # OpContent(e.op) \/ \E n \in OpIds(pre) : ~SameNode(pre, post, n)
                  THEN "OpsTableOK"
             ELSE "ok"
    [] e.ev = "remove" ->
         IF post.err # "" THEN "Raised"
         ELSE IF post.regs # pre.regs THEN "RegsOnlyGrow"
         ELSE IF OpIds(post) # OpIds(pre) \ {e.id} THEN "SuccessorOK"
         ELSE IF Wires(post) # RemoveW(Wires(pre), e.id) THEN "SuccessorOK"
         ELSE IF \E n \in OpIds(post) : ~SameNode(pre, post, n) THEN "OpsTableOK"
         ELSE "ok"
    [] e.ev = "replace" ->
         IF post.err # "" THEN "Raised"
         ELSE IF post.regs # pre.regs THEN "RegsOnlyGrow"
         ELSE IF OpIds(post) # OpIds(pre) \/ Wires(post) # Wires(pre) THEN "SuccessorOK"
         ELSE IF Content(NodeRec(post, e.id)) # OpContent(e.op)
                 \/ \E n \in OpIds(pre) \ {e.id} : ~SameNode(pre, post, n) THEN "OpsTableOK"
         ELSE "ok"
    [] e.ev = "add_reg" ->
         IF post.err # "" THEN "Raised"
         ELSE IF post.regs # [pre.regs EXCEPT ![e.rt] = @ + 1] THEN "RegsOnlyGrow"
         ELSE IF OpIds(post) # OpIds(pre) \/ Wires(post) # ExtWires(pre, post) THEN "SuccessorOK"
         ELSE "ok"
    [] e.ev \in {"unwrap", "group", "rm_identity"} ->
         IF post.err # "" THEN "Raised"
         ELSE IF post.regs # pre.regs THEN "RegsOnlyGrow"
         \* operations that are not rewritten keep their place relative to each other
         ELSE IF \E key \in AllKeys(pre) :
                   SelectSeq(Wire(pre, key), LAMBDA n : n \in OpIds(post))
                     # SelectSeq(Wire(post, key), LAMBDA n : n \in OpIds(pre)) THEN "RewriteKeepsOthers"
         ELSE IF e.ev = "rm_identity" /\ \E n \in OpIds(post) : NodeRec(post, n).kind = "Identity"
              THEN "IdentityRemoved"
         ELSE IF e.ev = "unwrap" /\ \E n \in OpIds(post) : NodeRec(post, n).kind = "OneQubitGateWrapper"
              THEN "WrappersRemoved"
         ELSE "ok"
    [] e.ev = "query" -> IF post.err # "" THEN "Raised" ELSE IF ~Unchanged(pre, post) THEN "QueryChangedState" ELSE "ok"
    \* a COPY taken earlier (circuit.copy()) observed again after edits on the original: it must be exactly what it was
    [] e.ev = "twin" -> IF post.err # "" THEN "Raised" ELSE IF ~Unchanged(pre, post) THEN "QueryChangedState"
                        ELSE IF e.twin_now # e.twin_ref THEN "CopyIndependent" ELSE "ok"
    [] OTHER -> "HarnessUnknownEdit"

Verdict(pre, e) ==
  LET post == e.obs IN
  IF post.err # "" THEN
     (IF e.ev = "add" /\ ~Contiguous(pre, e.op)
      THEN (IF StructClause(e.after) # "ok" THEN "Error" \o StructClause(e.after)
            ELSE IF ~Unchanged(pre, e.after) THEN "ErrorChangedState" ELSE "ok")
      ELSE "Raised")
  ELSE LET s == StructClause(post) IN
       IF s # "ok" THEN s ELSE EditClause(pre, e)

Init ==
  /\ tid \in 1..Len(Traces)
  /\ l = 1
  /\ cur = Traces[tid].init
  /\ why = LET s == StructClause(Traces[tid].init) IN IF s = "ok" THEN "ok" ELSE "Init" \o s

Next ==
  /\ why = "ok"
  /\ l <= Len(Events(tid))
  /\ LET e == Events(tid)[l] v == Verdict(cur, e) IN
       /\ why' = v
       /\ cur' = IF e.obs.err = "" THEN e.obs ELSE e.after
  /\ l' = l + 1 /\ tid' = tid

TraceSpec == Init /\ [][Next]_vars

Report ==
  /\ (why # "ok") => PrintT(<<"REJECT", Traces[tid].tid, l - 1, why, IF l = 1 THEN "init" ELSE Events(tid)[l - 1].ev>>)
  /\ (why = "ok" /\ l = Len(Events(tid)) + 1) => PrintT(<<"DONE", Traces[tid].tid>>)
=============================================================================
