------------------------------ MODULE Trace_Mix ------------------------------
(***************************************************************************)
(* Extension X05: the stabilizer MIXTURE object (backends/stabilizer/      *)
(* state.py, class MixedStabilizer) driven directly with multi-branch      *)
(* mixtures.  Abstract state: an ensemble {[g |-> stabilizer group,        *)
(* w |-> weight]} (Ensemble.tla).  Events: a unitary gate through the      *)
(* object's apply_* methods, reduce(), and the total probability query.    *)
(* After every call the whole mixture is logged.                           *)
(*   BranchesValid   every logged tableau is a valid Clifford tableau      *)
(*   MixtureOK       merged by group, the logged mixture is the gate       *)
(*                   applied to every branch of the previous one, weights  *)
(*                   unchanged (reduce: the same ensemble)                 *)
(*   ReduceMerges    after reduce() no two ADJACENT branches are identical *)
(*                   as tables is not demanded - only that nothing is lost *)
(*   ProbabilityOK   the reported total equals the sum of the weights      *)
(*   EqualityOK      == answers whether the two mixtures are the same bag  *)
(*                   of (weight, tableau), in whatever order               *)
(* (Measurement and reset of a multi-branch mixture act per branch - the   *)
(* named deviation of C06-K1 - and are not part of this check.)            *)
(***************************************************************************)
EXTENDS CircuitRun, Tableau, TLC, Json, IOUtils
Traces == JsonDeserialize(IOEnv.TRACE_FILE)
VARIABLES tid, l, why, ens
vars == <<tid, l, why, ens>>
Events(t) == Traces[t].events
MixValid(o) == \A k \in DOMAIN o.branches : TClause(o.branches[k].tab) = "ok"
MixEns(o) ==
  MergeTagged({[t |-> k, g |-> TGroup(o.branches[k].tab), w |-> Norm(o.branches[k].w[1], o.branches[k].w[2])]
               : k \in DOMAIN o.branches})
\* the mixture as a bag of (weight, tableau): what == is documented to compare ("the same set of tableaux with the same
\* probability"), whatever the order of the branches
BagKey(o, k) == <<Norm(o.branches[k].w[1], o.branches[k].w[2]), o.branches[k].tab>>
SameBag(a, b) ==
  /\ Len(a.branches) = Len(b.branches)
  /\ \A k \in DOMAIN a.branches :
        Cardinality({j \in DOMAIN a.branches : BagKey(a, j) = BagKey(a, k)}) =
        Cardinality({j \in DOMAIN b.branches : BagKey(b, j) = BagKey(a, k)})
Verdict(E, e) ==
  IF e.err # "" THEN "Raised"
  ELSE IF e.ev = "eq" /\ e.res # SameBag(e.obs, e.other) THEN "EqualityOK"
  ELSE IF ~MixValid(e.obs) THEN "BranchesValid"
  ELSE LET want == IF e.ev = "gate" THEN ApplyUnitary(E, e.kind, e.q) ELSE E IN
    IF MixEns(e.obs) # want THEN "MixtureOK"
    ELSE IF ~REq(Norm(e.prob[1], e.prob[2]), TotalWeight(want)) THEN "ProbabilityOK"
    ELSE "ok"
Init == /\ tid \in 1..Len(Traces) /\ l = 1
        /\ why = IF MixValid(Traces[tid].init) THEN "ok" ELSE "HarnessStateInvalid"
        /\ ens = IF MixValid(Traces[tid].init) THEN MixEns(Traces[tid].init) ELSE {}
Next ==
  /\ why = "ok" /\ l <= Len(Events(tid))
  /\ LET e == Events(tid)[l] v == Verdict(ens, e) IN
       /\ why' = v
       /\ ens' = IF v = "ok" THEN MixEns(e.obs) ELSE ens
  /\ l' = l + 1 /\ tid' = tid
TraceSpec == Init /\ [][Next]_vars
Report ==
  /\ (why # "ok") => PrintT(<<"REJECT", Traces[tid].tid, l - 1, why,
                               IF l = 1 THEN "init" ELSE IF Events(tid)[l - 1].ev = "gate" THEN Events(tid)[l - 1].kind ELSE Events(tid)[l - 1].ev>>)
  /\ (why = "ok" /\ l = Len(Events(tid)) + 1) => PrintT(<<"DONE", Traces[tid].tid>>)
=============================================================================
