--------------------------- MODULE Trace_PhotonLoss ---------------------------
(***************************************************************************)
(* Role J for X07: one event per real circuit - its operation list (wires  *)
(* and per-qubit loss exponents, projected from the real operations and    *)
(* their noise objects) and what photon_survival_rate returned (exact      *)
(* rationals): SurvivalOK per photon, LengthOK.                            *)
(***************************************************************************)
EXTENDS PhotonLoss, TLC, Json, IOUtils
Traces == JsonDeserialize(IOEnv.TRACE_FILE)
VARIABLES tid, l, why
vars == <<tid, l, why>>
Events(t) == Traces[t].events
Wire(k) == CASE k = 0 -> "p0" [] k = 1 -> "p1" [] k = 2 -> "p2" [] k = 3 -> "p3"
Verdict(e) ==
  IF e.err # "" THEN "Raised"
  ELSE IF Len(e.out) # e.np THEN "LengthOK"
  ELSE IF \E k \in 1..e.np : <<e.out[k][1], e.out[k][2]>> # Survival(e.ops, Wire(k - 1)) THEN "SurvivalOK"
  ELSE "ok"
Init == tid \in 1..Len(Traces) /\ l = 1 /\ why = "ok"
Next == /\ why = "ok" /\ l <= Len(Events(tid))
        /\ why' = Verdict(Events(tid)[l])
        /\ l' = l + 1 /\ tid' = tid
TraceSpec == Init /\ [][Next]_vars
Report ==
  /\ (why # "ok") => PrintT(<<"REJECT", Traces[tid].tid, l - 1, why, Events(tid)[l - 1].kind>>)
  /\ (why = "ok" /\ l = Len(Events(tid)) + 1) => PrintT(<<"DONE", Traces[tid].tid>>)
=============================================================================
