CONSTANT N = 2
SPECIFICATION Spec
INVARIANT Valid
INVARIANT GateLemmas
INVARIANT Homomorphism
INVARIANT MeasLemmas
INVARIANT EntropyLemmas
INVARIANT InsertLemmas
INVARIANT CloseLemma
