--------------------------- MODULE Trace_StabFn ---------------------------
(***************************************************************************)
(* Function judgements on stabilizer states (C03, C05, C11).               *)
(* A trace is {tid, states: [obs..], events: [call..]}; states are raw     *)
(* tableau observations (kind "T": Clifford tableau, "S": stabilizer       *)
(* tableau) that events refer to by index.  Events are independent calls   *)
(* of the real functions; every event gets its own verdict.                *)
(***************************************************************************)
EXTENDS Tableau, TLC, Json, IOUtils

Traces == JsonDeserialize(IOEnv.TRACE_FILE)

VARIABLES tid, l, why, failed
vars == <<tid, l, why, failed>>

Events(t) == Traces[t].events
St(t, k) == Traces[t].states[k]
\* validity clause and group of a referenced state
StClause(o) == IF o.kind = "T" THEN TClause(o) ELSE SClause(o)
StGroup(o) == IF o.kind = "T" THEN TGroup(o) ELSE SGroup(o)

RatEq(num1, den1, num2, den2) == num1 * den2 = num2 * den1

ApplyGate(G, gt) ==
  IF gt.g \in OneQubitGates THEN Gate1(G, gt.g, gt.a) ELSE Gate2(G, gt.g, gt.a, gt.b)
RECURSIVE RunGates(_, _)
RunGates(G, gates) == IF gates = <<>> THEN G ELSE RunGates(ApplyGate(G, Head(gates)), Tail(gates))
GatesOK(gates, n) ==
  \A k \in DOMAIN gates : LET gt == gates[k] IN
     /\ gt.a \in 1..n
     /\ (gt.g \in OneQubitGates \/ (gt.g \in TwoQubitGates /\ gt.b \in 1..n /\ gt.b # gt.a))

SameRaw(o1, o2) == o1.x = o2.x /\ o1.z = o2.z /\ o1.r = o2.r

\* GF(2) rank of the adjacency block between A and its complement = entropy for graph states (lemma, MC_Graphs)
InputClause(t, idxs) ==
  LET bad == {k \in idxs : StClause(St(t, k)) # "ok"} IN
  IF bad = {} THEN "ok" ELSE "InputInvalid"

Verdict(t, e) ==
  CASE e.fn = "fidelity" ->
         \* out = fidelity(a, b), out2 = fidelity(b, a) as rationals
         LET A == StGroup(St(t, e.a)) B == StGroup(St(t, e.b)) n == St(t, e.a).n IN
         IF InputClause(t, {e.a, e.b}) # "ok" THEN "InputInvalid"
         ELSE IF e.out.err # "" THEN "Raised"
         ELSE IF ~RatEq(e.out.n, e.out.d, FidelityNum(A, B), Pow2(n)) THEN "FidelityOK"
         ELSE IF ~RatEq(e.out.n, e.out.d, e.out2.n, e.out2.d) THEN "Symmetric"
         ELSE IF ~((e.out.n = e.out.d) <=> (A = B)) THEN "OneIffEqual"
         ELSE "ok"
    [] e.fn = "eq" ->
         LET A == StGroup(St(t, e.a)) B == StGroup(St(t, e.b)) IN
         IF InputClause(t, {e.a, e.b}) # "ok" THEN "InputInvalid"
         ELSE IF e.out.err # "" THEN "Raised"
         ELSE IF e.out.v # (A = B) THEN "EqOK" ELSE "ok"
    [] e.fn = "canonical" ->
         \* ins: indices of several generating sets of ONE group; outs: canonical_form of each (S observations)
         LET G == StGroup(St(t, e.ins[1])) IN
         IF InputClause(t, {e.ins[k] : k \in DOMAIN e.ins}) # "ok" THEN "InputInvalid"
         ELSE IF \E k \in DOMAIN e.ins : StGroup(St(t, e.ins[k])) # G THEN "HarnessNotSameGroup"
         ELSE IF \E k \in DOMAIN e.outs : e.outs[k].err # "" THEN "Raised"
         ELSE IF \E k \in DOMAIN e.outs : SClause(e.outs[k]) # "ok" THEN "CanonicalValid"
         ELSE IF \E k \in DOMAIN e.outs : SGroup(e.outs[k]) # G THEN "CanonicalSameState"
         ELSE IF \E j, k \in DOMAIN e.outs : ~SameRaw(e.outs[j], e.outs[k]) THEN "CanonicalUnique"
         ELSE "ok"
    [] e.fn = "infidelity" ->
         LET A == StGroup(St(t, e.a)) B == StGroup(St(t, e.b)) n == St(t, e.a).n IN
         IF InputClause(t, {e.a, e.b}) # "ok" THEN "InputInvalid"
         ELSE IF e.out.err # "" THEN "Raised"
         ELSE IF ~RatEq(e.out.n, e.out.d, Pow2(n) - FidelityNum(A, B), Pow2(n)) THEN "InfidelityOK"
         ELSE "ok"
    [] e.fn = "inverse_circuit" ->
         \* out: tab (S observation returned), gates
         LET o == St(t, e.a) G == StGroup(o) IN
         IF InputClause(t, {e.a}) # "ok" THEN "InputInvalid"
         ELSE IF e.out.err # "" THEN "Raised"
         ELSE IF ~GatesOK(e.out.gates, o.n) THEN "GateListWellFormed"
         ELSE IF RunGates(G, e.out.gates) # ZeroGroup(o.n) THEN "InverseOK"
         ELSE IF SClause(e.out.tab) # "ok" THEN "InverseTableauValid"
         ELSE IF SGroup(e.out.tab) # ZeroGroup(o.n) THEN "InverseTableauZero"
         ELSE "ok"
    [] e.fn = "to_clifford" ->
         \* any constructor of a Clifford tableau from a stabilizer tableau: out is a T observation
         LET o == St(t, e.a) IN
         IF InputClause(t, {e.a}) # "ok" THEN "InputInvalid"
         ELSE IF e.out.err # "" THEN "Raised"
         ELSE IF TClause(e.out) # "ok" THEN "Clifford" \o TClause(e.out)
         ELSE IF TGroup(e.out) # StGroup(o) THEN "CliffordSameState"
         ELSE "ok"
    [] e.fn = "graph_to_clifford" ->
         IF e.out.err # "" THEN "Raised"
         ELSE IF TClause(e.out) # "ok" THEN "Clifford" \o TClause(e.out)
         ELSE IF TGroup(e.out) # GraphState(e.n, {{ed[1], ed[2]} : ed \in {e.edges[k] : k \in DOMAIN e.edges}})
              THEN "GraphTableauOK"
         ELSE "ok"
    [] e.fn = "height" ->
         \* out.h : list of heights for cuts after qubit 1..n
         LET o == St(t, e.a) G == StGroup(o) IN
         IF InputClause(t, {e.a}) # "ok" THEN "InputInvalid"
         ELSE IF e.out.err # "" THEN "Raised"
         ELSE IF Len(e.out.h) # o.n THEN "HeightLength"
         ELSE IF \E k \in 1..o.n : e.out.h[k] # Height(G, k) THEN "HeightOK"
         \* the other entry points to the same quantity: per position, dictionary (with its padding entry 0 at -1), maximum
         ELSE IF Len(e.out.hf) # o.n \/ \E k \in 1..o.n : e.out.hf[k] # Height(G, k) THEN "HeightFunctionOK"
         ELSE IF Len(e.out.hd) # o.n \/ e.out.hd_first # 0 \/ \E k \in 1..o.n : e.out.hd[k] # Height(G, k) THEN "HeightDictOK"
         ELSE IF e.out.hmax # Max({Height(G, k) : k \in 1..o.n}) THEN "HeightMaxOK"
         ELSE "ok"
    [] e.fn = "height_graph" ->
         \* height_dict / height_max / determine_n_emitters on a graph: out.h heights, out.hmax, out.ne
         LET G == GraphState(e.n, {{ed[1], ed[2]} : ed \in {e.edges[k] : k \in DOMAIN e.edges}}) IN
         IF e.out.err # "" THEN "Raised"
         ELSE IF Len(e.out.h) # e.n THEN "HeightLength"
         ELSE IF \E k \in 1..e.n : e.out.h[k] # Height(G, k) THEN "HeightGraphOK"
         ELSE IF e.out.hmax # Max({Height(G, k) : k \in 1..e.n}) THEN "HeightMaxOK"
         ELSE IF e.out.ne # Max({Height(G, k) : k \in 1..e.n}) THEN "EmitterCountOK"
         ELSE "ok"
    [] e.fn = "emitter_sorted" ->
         \* graphs: sequence of edge lists (input order); out.order: indices into graphs as returned, out.ne: counts
         LET H(k) == LET G == GraphState(e.n, {{ed[1], ed[2]} : ed \in {e.graphs[k][j] : j \in DOMAIN e.graphs[k]}})
                     IN Max({Height(G, q) : q \in 1..e.n}) IN
         IF e.out.err # "" THEN "Raised"
         ELSE IF {e.out.order[j] : j \in DOMAIN e.out.order} # DOMAIN e.graphs \/ Len(e.out.order) # Len(e.graphs)
              THEN "SortedIsPermutation"
         ELSE IF \E j \in DOMAIN e.out.order : e.out.ne[j] # H(e.out.order[j]) THEN "SortedCountOK"
         ELSE IF \E j \in 1..(Len(e.out.order) - 1) : e.out.ne[j] > e.out.ne[j + 1] THEN "SortedNonDecreasing"
         ELSE "ok"
    [] OTHER -> "HarnessUnknownFn"

\* cause attribution for the inverse-circuit family: the returned circuit maps the state onto a product of single-qubit
\* Pauli eigenstates that is not (up to signs) |0..0> - some qubit is left in the X or Y basis
LeftInXBasis(G, gates) ==
  LET n == NOf(G) R == RunGates(G, gates) IN
  /\ GatesOK(gates, n)
  /\ \A q \in 1..n : Unentangled(R, q)
  /\ {g.p : g \in R} # {g.p : g \in ZeroGroup(n)}
CauseOf(t, e) ==
  IF e.fn = "inverse_circuit" /\ e.out.err = "" /\ InputClause(t, {e.a}) = "ok" /\ LeftInXBasis(StGroup(St(t, e.a)), e.out.gates)
  THEN "qubit-left-in-X-basis"
  ELSE IF e.fn = "to_clifford" /\ InputClause(t, {e.a}) = "ok" /\ Len(e.ctx_gates) > 0
          /\ LeftInXBasis(StGroup(St(t, e.a)), e.ctx_gates)
  THEN "qubit-left-in-X-basis"
  ELSE e.fn

Init == tid \in 1..Len(Traces) /\ l = 1 /\ why = "ok" /\ failed = FALSE
Next ==
  /\ l <= Len(Events(tid))
  /\ LET v == Verdict(tid, Events(tid)[l]) IN why' = v /\ failed' = (failed \/ v # "ok")
  /\ l' = l + 1 /\ tid' = tid
TraceSpec == Init /\ [][Next]_vars

Report ==
  /\ (why # "ok") => PrintT(<<"REJECT", Traces[tid].tid, l - 1, why, CauseOf(tid, Events(tid)[l - 1])>>)
  /\ (~failed /\ l = Len(Events(tid)) + 1) => PrintT(<<"DONE", Traces[tid].tid>>)
=============================================================================
