----------------------------- MODULE CircuitDag -----------------------------
(***************************************************************************)
(* The circuit as a DAG, in two layers.                                    *)
(*                                                                         *)
(* (1) OBSERVED structure, exactly what CircuitDAG holds after an edit:    *)
(*   o.nodes : sequence of [id, io, kind, q, qt, c, gates, labels]         *)
(*             id: string; io: "in" / "out" / "" ; q: sequence of wire     *)
(*             keys ("e0", "p1") of the quantum registers the operation    *)
(*             acts on (control first); c: sequence of classical keys      *)
(*   o.edges : sequence of [u, v, key, rt, r] (MultiDiGraph edges + attrs) *)
(*   o.node_dict : record label |-> sequence of node ids (maintained index)*)
(*   o.edge_dict : record reg type |-> sequence of [u, v, key]             *)
(*   o.regs : [e, p, c] register counts ; o.seq : ids in sequence() order  *)
(* The invariants of property C12 are stated on this structure.            *)
(*                                                                         *)
(* (2) ABSTRACT state: wires (wire key |-> sequence of operation ids) and  *)
(* the edits as functions on wires - "an edit puts the operation where it  *)
(* was asked to, and moves nothing else".                                  *)
(***************************************************************************)
EXTENDS Naturals, Sequences, FiniteSets, FiniteSetsExt, SequencesExt, TLC

SeqToSet(s) == {s[k] : k \in DOMAIN s}
NoDup(s) == Cardinality(SeqToSet(s)) = Len(s)

NodeIds(o) == {o.nodes[k].id : k \in DOMAIN o.nodes}
NodeRec(o, id) == o.nodes[CHOOSE k \in DOMAIN o.nodes : o.nodes[k].id = id]
EdgeSet(o) == SeqToSet(o.edges)
E3(e) == <<e.u, e.v, e.key>>
OutEdges(o, n) == {e \in EdgeSet(o) : e.u = n}
InEdges(o, n) == {e \in EdgeSet(o) : e.v = n}
Succs(o, n) == {e.v : e \in OutEdges(o, n)}

WireKey(t, i) == t \o ToString(i)
AllKeys(o) == {WireKey("e", i) : i \in 0..(o.regs.e - 1)} \cup {WireKey("p", i) : i \in 0..(o.regs.p - 1)}
              \cup {WireKey("c", i) : i \in 0..(o.regs.c - 1)}
QuantumKeys(o) == {WireKey("e", i) : i \in 0..(o.regs.e - 1)} \cup {WireKey("p", i) : i \in 0..(o.regs.p - 1)}
InNode(key) == key \o "_in"
OutNode(key) == key \o "_out"

(***************************************************************************)
(* Reachability / acyclicity.                                              *)
(***************************************************************************)
RECURSIVE ReachFrom(_, _, _)
ReachFrom(o, frontier, seen) ==        \* all nodes reachable (in >= 1 step) from the nodes in `frontier`
  LET next == UNION {Succs(o, n) : n \in frontier} \ seen IN
  IF next = {} THEN seen ELSE ReachFrom(o, next, seen \cup next)
Desc(o, n) == ReachFrom(o, {n}, {})
Acyclic(o) == \A n \in NodeIds(o) : n \notin Desc(o, n)
\* n1 reaches n2 in zero or more steps
Leq(o, n1, n2) == n1 = n2 \/ n2 \in Desc(o, n1)

EdgesWellFormed(o) ==
  /\ NoDup(o.edges)
  /\ \A e \in EdgeSet(o) : e.u \in NodeIds(o) /\ e.v \in NodeIds(o)
  /\ NoDup([k \in DOMAIN o.nodes |-> o.nodes[k].id])

SourcesSinksAreIO(o) ==
  \A n \in NodeIds(o) :
    /\ (InEdges(o, n) = {} => NodeRec(o, n).io = "in")
    /\ (OutEdges(o, n) = {} => NodeRec(o, n).io = "out")
IOPresent(o) ==
  /\ \A key \in AllKeys(o) : InNode(key) \in NodeIds(o) /\ OutNode(key) \in NodeIds(o)
  /\ \A n \in NodeIds(o) : NodeRec(o, n).io # "" => \E key \in AllKeys(o) : n \in {InNode(key), OutNode(key)}

(***************************************************************************)
(* Wires: the path of edges labelled `key` from key_in to key_out.         *)
(***************************************************************************)
RECURSIVE FollowWire(_, _, _, _)
FollowWire(o, key, n, fuel) ==      \* ids strictly between n and key_out, or <<"BROKEN">> if the path breaks
  IF n = OutNode(key) THEN <<>>
  ELSE IF fuel = 0 THEN <<"BROKEN">>
  ELSE LET outs == {e \in OutEdges(o, n) : e.key = key} IN
       IF Cardinality(outs) # 1 THEN <<"BROKEN">>
       ELSE LET v == (CHOOSE e \in outs : TRUE).v IN
            IF v = OutNode(key) THEN <<>> ELSE <<v>> \o FollowWire(o, key, v, fuel - 1)
Wire(o, key) == FollowWire(o, key, InNode(key), Len(o.edges) + 1)
WireOK(o, key) == "BROKEN" \notin SeqToSet(Wire(o, key))
ActsOn(nr, key) == key \in SeqToSet(nr.q) \/ key \in SeqToSet(nr.c)
\* every QUANTUM register's wire is one path visiting exactly the operations acting on that register,
\* and all edges with that key lie on it
WireIsPath(o) ==
  \A key \in QuantumKeys(o) :
    LET w == Wire(o, key) IN
    /\ WireOK(o, key)
    /\ NoDup(w)
    /\ SeqToSet(w) = {n \in NodeIds(o) : NodeRec(o, n).io = "" /\ key \in SeqToSet(NodeRec(o, n).q)}
    /\ Cardinality({e \in EdgeSet(o) : e.key = key}) = Len(w) + 1
\* classical wires are paths too (operations added with insert_at are not threaded on them - as implemented)
ClassicalWiresOK(o) ==
  \A i \in 0..(o.regs.c - 1) :
    LET key == WireKey("c", i) w == Wire(o, key) IN
    /\ WireOK(o, key) /\ NoDup(w)
    /\ Cardinality({e \in EdgeSet(o) : e.key = key}) = Len(w) + 1
    /\ \A n \in SeqToSet(w) : key \in SeqToSet(NodeRec(o, n).c)
EdgeKeysKnown(o) == \A e \in EdgeSet(o) : e.key \in AllKeys(o) /\ e.rt \in {"e", "p", "c"}
                      /\ e.key = WireKey(e.rt, e.r)

(***************************************************************************)
(* Maintained indexes agree with the graph.                                *)
(***************************************************************************)
TypeDescr(nr) ==      \* parse_q_reg_types
  LET name(t) == IF t = "e" THEN "Emitter" ELSE "Photonic" IN
  IF Len(nr.qt) = 0 THEN ""
  ELSE IF Len(nr.qt) = 1 THEN name(nr.qt[1])
  ELSE name(nr.qt[1]) \o "-" \o name(nr.qt[2])
LabelsOf(nr) ==
  IF nr.io = "in" THEN {"Input"} ELSE IF nr.io = "out" THEN {"Output"}
  ELSE SeqToSet(nr.labels) \cup {nr.kind, TypeDescr(nr)}
AllLabels(o) == UNION {LabelsOf(NodeRec(o, n)) : n \in NodeIds(o)}
NodeDictAgree(o) ==
  /\ \A lab \in AllLabels(o) :
       /\ lab \in DOMAIN o.node_dict
       /\ NoDup(o.node_dict[lab])
       /\ SeqToSet(o.node_dict[lab]) = {n \in NodeIds(o) : lab \in LabelsOf(NodeRec(o, n))}
  /\ \A lab \in DOMAIN o.node_dict :
       lab \notin AllLabels(o) => o.node_dict[lab] = <<>>
EdgeDictAgree(o) ==
  \A rt \in {"e", "p", "c"} :
    LET want == {E3(e) : e \in {x \in EdgeSet(o) : x.rt = rt}} IN
    IF rt \in DOMAIN o.edge_dict
    THEN NoDup(o.edge_dict[rt]) /\ SeqToSet(o.edge_dict[rt]) = want
    ELSE want = {}

\* the sequence handed to compilers is a topological order of all nodes
SequenceTopological(o) ==
  /\ NoDup(o.seq) /\ SeqToSet(o.seq) = NodeIds(o)
  /\ \A e \in EdgeSet(o) :
       (CHOOSE i \in DOMAIN o.seq : o.seq[i] = e.u) < (CHOOSE j \in DOMAIN o.seq : o.seq[j] = e.v)

\* inserting a two-qubit operation on the edge pair (e1, e2) keeps the graph acyclic
PairCompatible(o, e1, e2) ==
  /\ E3(e1) # E3(e2)
  /\ ~Leq(o, e1.v, e2.u)
  /\ ~Leq(o, e2.v, e1.u)
\* every edge the circuit does NOT report as incompatible with e1 is truly compatible with it
CompatSound(o) ==
  \A k \in DOMAIN o.incompat :
    LET rec == o.incompat[k]
        e1 == CHOOSE e \in EdgeSet(o) : E3(e) = <<rec.e[1], rec.e[2], rec.e[3]>>
        reported == {<<rec.inc[j][1], rec.inc[j][2], rec.inc[j][3]>> : j \in DOMAIN rec.inc}
    IN \A e2 \in EdgeSet(o) : E3(e2) \notin reported => PairCompatible(o, e1, e2)

StructClause(o) ==
  IF ~EdgesWellFormed(o) THEN "EdgesWellFormed"
  ELSE IF ~IOPresent(o) THEN "IOPresent"
  ELSE IF ~EdgeKeysKnown(o) THEN "EdgeKeysKnown"
  ELSE IF ~Acyclic(o) THEN "Acyclic"
  ELSE IF ~SourcesSinksAreIO(o) THEN "SourcesSinksAreIO"
  ELSE IF ~WireIsPath(o) THEN "WireIsPath"
  ELSE IF ~ClassicalWiresOK(o) THEN "ClassicalWiresOK"
  ELSE IF ~NodeDictAgree(o) THEN "NodeDictAgree"
  ELSE IF ~EdgeDictAgree(o) THEN "EdgeDictAgree"
  ELSE IF ~SequenceTopological(o) THEN "SequenceTopological"
  ELSE IF ~CompatSound(o) THEN "CompatSound"
  ELSE "ok"

(***************************************************************************)
(* Abstract wires and the edits.                                           *)
(***************************************************************************)
Wires(o) == [key \in AllKeys(o) |-> Wire(o, key)]
\* content of an operation, independent of its node id
Content(nr) == [kind |-> nr.kind, q |-> nr.q, c |-> nr.c, gates |-> nr.gates]
InsertSeq(s, pos, x) == SubSeq(s, 1, pos) \o <<x>> \o SubSeq(s, pos + 1, Len(s))     \* after `pos` elements
RemoveFromSeq(s, x) == SelectSeq(s, LAMBDA y : y # x)

\* append: the operation goes to the end of each of its quantum AND classical wires
AddW(w, id, qkeys, ckeys) ==
  [key \in DOMAIN w |-> IF key \in SeqToSet(qkeys) \cup SeqToSet(ckeys) THEN Append(w[key], id) ELSE w[key]]
\* insert at edges: pos[key] = number of operations before the chosen edge on that wire (quantum wires only)
InsertW(w, id, pos) ==
  [key \in DOMAIN w |-> IF key \in DOMAIN pos THEN InsertSeq(w[key], pos[key], id) ELSE w[key]]
RemoveW(w, id) == [key \in DOMAIN w |-> RemoveFromSeq(w[key], id)]

\* position of an edge on its wire in observation o: number of operations before it
EdgePos(o, e) == IF e[1] = InNode(e[3]) THEN 0
                 ELSE CHOOSE i \in DOMAIN Wire(o, e[3]) : Wire(o, e[3])[i] = e[1]
EdgeExists(o, e) == \E x \in EdgeSet(o) : E3(x) = <<e[1], e[2], e[3]>>
=============================================================================
