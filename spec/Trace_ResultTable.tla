-------------------------- MODULE Trace_ResultTable --------------------------
(***************************************************************************)
(* Role J for X04: call histories on one real SolverResult (circuits are   *)
(* stood in for by their ids).  After every call the whole table is        *)
(* logged: ErrorOK, TableOK (set / add), SortOK (stable sort of the same   *)
(* rows), QueryOK (indices, row dictionaries, length).                     *)
(***************************************************************************)
EXTENDS ResultTable, TLC, Json, IOUtils
Traces == JsonDeserialize(IOEnv.TRACE_FILE)
VARIABLES tid, l, why, s, props
vars == <<tid, l, why, s, props>>
Events(t) == Traces[t].events
ObsState(o) == [cols |-> o.cols, rows |-> [i \in DOMAIN o.rows |-> [c \in {o.cols[k] : k \in DOMAIN o.cols} |->
                                               o.rows[i][CHOOSE k \in DOMAIN o.cols : o.cols[k] = c]]]]
Verdict(st, pr, e) ==
  LET o == ObsState(e.obs) IN
  CASE e.a = "set" ->
         LET r == SetColumn(st, e.c, e.vals) IN
         IF e.err # r[2] THEN "ErrorOK" ELSE IF o # r[1] THEN "TableOK" ELSE "ok"
    [] e.a = "add_property" ->
         LET r == AddProperty(st, e.c, e.c \in pr) IN
         IF e.err # r[2] THEN "ErrorOK" ELSE IF o # r[1] THEN "TableOK" ELSE "ok"
    [] e.a = "sort" ->
         IF e.c \notin ColSet(st) THEN (IF e.err = "" THEN "ErrorOK" ELSE IF o # st THEN "TableOK" ELSE "ok")
         ELSE IF e.err # "" THEN "ErrorOK"
         ELSE IF o.cols # st.cols \/ ~IsStableSortOf(o.rows, st.rows, e.c) THEN "SortOK" ELSE "ok"
    [] e.a = "find" ->
         IF e.c \notin ColSet(st) THEN (IF e.err = "ValueError" THEN "ok" ELSE "ErrorOK")
         ELSE IF e.err # "" THEN "ErrorOK"
         ELSE IF o # st THEN "TableOK"
         ELSE IF {e.ret[k] : k \in DOMAIN e.ret} # IndicesWith(st, e.c, e.v) \/ Len(e.ret) # Cardinality(IndicesWith(st, e.c, e.v))
                 \/ (\E k \in 1..(Len(e.ret) - 1) : e.ret[k] >= e.ret[k + 1]) THEN "QueryOK"
         ELSE IF e.len # Len(st.rows) THEN "QueryOK" ELSE "ok"
Init == /\ tid \in 1..Len(Traces) /\ l = 1 /\ why = "ok"
        /\ s = ObsState(Traces[tid].init) /\ props = {Traces[tid].props[k] : k \in DOMAIN Traces[tid].props}
Next ==
  /\ why = "ok" /\ l <= Len(Events(tid))
  /\ LET e == Events(tid)[l] IN
       /\ why' = Verdict(s, props, e)
       /\ s' = ObsState(e.obs)
       /\ props' = IF e.a = "add_property" /\ e.err = "" THEN props \cup {e.c} ELSE props
  /\ l' = l + 1 /\ tid' = tid
TraceSpec == Init /\ [][Next]_vars
Report ==
  /\ (why # "ok") => PrintT(<<"REJECT", Traces[tid].tid, l - 1, why, Events(tid)[l - 1].a>>)
  /\ (why = "ok" /\ l = Len(Events(tid)) + 1) => PrintT(<<"DONE", Traces[tid].tid>>)
=============================================================================
