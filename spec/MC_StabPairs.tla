--------------------------- MODULE MC_StabPairs ---------------------------
(***************************************************************************)
(* Role M for C05 / C17: two stabilizer states evolving independently, so  *)
(* that every ordered pair of states is a reachable state (60^2, 1080^2).  *)
(* The invariants are the properties of the fidelity the judges rely on.   *)
(***************************************************************************)
EXTENDS StabState, TLC
CONSTANT N
VARIABLES a, b
Q == 1..N
Step(G, H) == \/ \E q \in Q : H = Gate1(G, "H", q) \/ H = Gate1(G, "P", q)
              \/ \E c, t \in Q : c # t /\ H = Gate2(G, "CNOT", c, t)
Init == a = ZeroGroup(N) /\ b = ZeroGroup(N)
Next == \/ Step(a, a') /\ b' = b
        \/ Step(b, b') /\ a' = a
Spec == Init /\ [][Next]_<<a, b>>

IsPow2OrZero(m) == m = 0 \/ \E k \in 0..N : m = Pow2(k)
FidelityLemmas ==
  /\ FidelityNum(a, b) = FidelityNum(b, a)                         \* symmetric
  /\ FidelityNum(a, b) \in 0..Pow2(N)                              \* in [0, 1]
  /\ (FidelityNum(a, b) = Pow2(N)) <=> (a = b)                     \* 1 exactly for equal states
  /\ IsPow2OrZero(FidelityNum(a, b))                               \* 0 or 2^-k
  \* a Clifford applied to both states preserves the fidelity
  /\ \A q \in Q : FidelityNum(Gate1(a, "H", q), Gate1(b, "H", q)) = FidelityNum(a, b)
=============================================================================
