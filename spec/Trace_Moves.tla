----------------------------- MODULE Trace_Moves -----------------------------
(***************************************************************************)
(* Role J for C04: histories of the evolutionary / hybrid solvers' REAL    *)
(* mutation moves applied to real circuits.  Every event carries the move  *)
(* name, the candidate edge pairs the move's selector offered on the       *)
(* pre-state, and the complete projected circuit after the move.           *)
(* Clauses:                                                                *)
(*   StructClause      the circuit is valid (all C12 invariants)           *)
(*   EmissionShape     no photon-photon two-qubit op; every photon's first *)
(*                     operation is its emission CNOT from an emitter;     *)
(*                     afterwards only one-qubit gates / targets of        *)
(*                     measured corrections                                *)
(*   FixedPreserved    emission CNOTs and measure-and-resets present at    *)
(*                     initialisation are still there, unchanged           *)
(*   CandidatesSound   every candidate pair the selector offers is legal:  *)
(*                     right register types and inserting there keeps the  *)
(*                     circuit acyclic and emission-shaped                 *)
(*   MoveEffect        the move did what its name says, to one operation - *)
(*                     INFORMATION only (the property constrains the       *)
(*                     circuits reached, not what a single move does)      *)
(***************************************************************************)
EXTENDS CircuitDag, Json, IOUtils

Traces == JsonDeserialize(IOEnv.TRACE_FILE)
VARIABLES tid, l, why, cur, note
vars == <<tid, l, why, cur, note>>
Events(t) == Traces[t].events

OpIds(o) == {n \in NodeIds(o) : NodeRec(o, n).io = ""}
IsPhotonKey(o, key) == key \in {WireKey("p", i) : i \in 0..(o.regs.p - 1)}
IsEmitterKey(o, key) == key \in {WireKey("e", i) : i \in 0..(o.regs.e - 1)}

EmissionShape(o) ==
  /\ \A n \in OpIds(o) : LET nr == NodeRec(o, n) IN
        Len(nr.q) = 2 => ~(IsPhotonKey(o, nr.q[1]) /\ IsPhotonKey(o, nr.q[2]))
  /\ \A i \in 0..(o.regs.p - 1) :
       LET key == WireKey("p", i) w == Wire(o, key) IN
       /\ Len(w) >= 1
       /\ LET first == NodeRec(o, w[1]) IN
            first.kind = "CNOT" /\ first.q[2] = key /\ IsEmitterKey(o, first.q[1])
       /\ \A j \in 2..Len(w) :
            LET nr == NodeRec(o, w[j]) IN
            \/ (Len(nr.q) = 1 /\ nr.kind # "MeasurementZ")
            \/ (nr.kind \in {"ClassicalCNOT", "ClassicalCZ", "MeasurementCNOTandReset"} /\ nr.q[2] = key)

\* emission CNOTs and measure-and-reset operations of the initial circuit
Protected(o) ==
  {n \in OpIds(o) : LET nr == NodeRec(o, n) IN
     \/ (nr.kind = "CNOT" /\ IsEmitterKey(o, nr.q[1]) /\ IsPhotonKey(o, nr.q[2]))
     \/ nr.kind = "MeasurementCNOTandReset"}
FixedPreserved(init, o) ==
  \A n \in Protected(init) :
    n \in OpIds(o) /\ Content(NodeRec(o, n)) = Content(NodeRec(init, n))

EdgeOf(o, t) == CHOOSE e \in EdgeSet(o) : E3(e) = <<t[1], t[2], t[3]>>
\* a candidate pair for an emitter-emitter CNOT / for a measure-and-reset is legal on pre-state o
CnotPairLegal(o, pr) ==
  /\ EdgeExists(o, pr[1]) /\ EdgeExists(o, pr[2])
  /\ LET e1 == EdgeOf(o, pr[1]) e2 == EdgeOf(o, pr[2]) IN
       /\ e1.rt = "e" /\ e2.rt = "e" /\ e1.key # e2.key
       /\ PairCompatible(o, e1, e2)
MeasPairLegal(o, pr) ==
  /\ EdgeExists(o, pr[1]) /\ EdgeExists(o, pr[2])
  /\ LET e1 == EdgeOf(o, pr[1]) e2 == EdgeOf(o, pr[2]) IN
       /\ e1.rt = "e" /\ e2.rt = "p"
       /\ NodeRec(o, e2.u).io # "in"          \* the photon has been emitted before it is the target of a correction
       /\ PairCompatible(o, e1, e2)
CandidatesSound(o, e) ==
  /\ \A k \in DOMAIN e.cands_cnot : CnotPairLegal(o, e.cands_cnot[k])
  /\ \A k \in DOMAIN e.cands_meas : MeasPairLegal(o, e.cands_meas[k])

SameNode(pre, post, n) ==
  LET a == NodeRec(pre, n) b == NodeRec(post, n) IN Content(a) = Content(b) /\ a.qt = b.qt
OthersKeepOrder(pre, post) ==
  \A key \in AllKeys(pre) :
     SelectSeq(Wire(pre, key), LAMBDA n : n \in OpIds(post)) = SelectSeq(Wire(post, key), LAMBDA n : n \in OpIds(pre))

IsWrapperOn(o, nr, t) == nr.kind = "OneQubitGateWrapper" /\ Len(nr.q) = 1 /\ nr.qt[1] = t
\* what one move may do to the circuit
MoveEffect(pre, post, move) ==
  LET added == OpIds(post) \ OpIds(pre)
      removed == OpIds(pre) \ OpIds(post)
      changed == {n \in OpIds(pre) \cap OpIds(post) : ~SameNode(pre, post, n)}
      nothing == added = {} /\ removed = {} /\ changed = {}
      oneAdded(P(_)) == Cardinality(added) = 1 /\ removed = {} /\ changed = {} /\ P(NodeRec(post, CHOOSE n \in added : TRUE))
      oneReplaced(t) == added = {} /\ removed = {} /\ Cardinality(changed) = 1
                        /\ LET n == CHOOSE x \in changed : TRUE IN
                             IsWrapperOn(pre, NodeRec(pre, n), t) /\ IsWrapperOn(post, NodeRec(post, n), t)
                             /\ NodeRec(pre, n).q = NodeRec(post, n).q
      oneRemoved == added = {} /\ changed = {} /\ Cardinality(removed) = 1
                    /\ "Fixed" \notin SeqToSet(NodeRec(pre, CHOOSE n \in removed : TRUE).labels)
  IN
  /\ post.regs = pre.regs
  /\ OthersKeepOrder(pre, post)
  /\ CASE move = "add_emitter_one_qubit_op" ->
            nothing \/ oneAdded(LAMBDA nr : IsWrapperOn(post, nr, "e")) \/ oneReplaced("e")
       [] move = "add_photon_one_qubit_op" ->
            nothing \/ oneAdded(LAMBDA nr : IsWrapperOn(post, nr, "p")) \/ oneReplaced("p")
       [] move = "replace_photon_one_qubit_op" -> nothing \/ oneReplaced("p")
       [] move = "replace_emitter_one_qubit_op" -> nothing \/ oneReplaced("e")
       [] move = "add_emitter_cnot" ->
            nothing \/ oneAdded(LAMBDA nr : nr.kind = "CNOT" /\ nr.qt = <<"e", "e">> /\ nr.q[1] # nr.q[2])
       [] move = "add_measurement_cnot_and_reset" ->
            nothing \/ oneAdded(LAMBDA nr : nr.kind = "MeasurementCNOTandReset" /\ nr.qt = <<"e", "p">>)
       [] move = "remove_op" -> nothing \/ oneRemoved
       [] OTHER -> FALSE

Verdict(t, pre, e) ==
  LET post == e.obs IN
  IF post.err # "" THEN "Raised"
  ELSE IF ~CandidatesSound(pre, e) THEN "CandidatesSound"
  ELSE LET s == StructClause(post) IN
    IF s # "ok" THEN s
    ELSE IF ~EmissionShape(post) THEN "EmissionShape"
    ELSE IF ~FixedPreserved(Traces[t].init, post) THEN "FixedPreserved"
    ELSE "ok"

Init ==
  /\ tid \in 1..Len(Traces) /\ l = 1 /\ cur = Traces[tid].init /\ note = ""
  /\ why = LET s == StructClause(Traces[tid].init) IN
           IF s # "ok" THEN "Init" \o s
           ELSE IF ~EmissionShape(Traces[tid].init) THEN "InitEmissionShape" ELSE "ok"
Next ==
  /\ why = "ok" /\ l <= Len(Events(tid))
  /\ LET e == Events(tid)[l] IN
       /\ why' = Verdict(tid, cur, e)
       /\ cur' = IF e.obs.err = "" THEN e.obs ELSE cur
       /\ note' = IF Verdict(tid, cur, e) = "ok" /\ ~MoveEffect(cur, e.obs, e.move)
                  THEN "a move changed more than one operation of its kind: " \o e.move ELSE ""
  /\ l' = l + 1 /\ tid' = tid
TraceSpec == Init /\ [][Next]_vars
Report ==
  /\ (why # "ok") => PrintT(<<"REJECT", Traces[tid].tid, l - 1, why, IF l = 1 THEN "init" ELSE Events(tid)[l - 1].move>>)
  /\ (why = "ok" /\ l = Len(Events(tid)) + 1) => PrintT(<<"DONE", Traces[tid].tid>>)
  /\ (note # "") => PrintT(<<"INFO", Traces[tid].tid, l - 1, note>>)
=============================================================================
