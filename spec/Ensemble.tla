------------------------------ MODULE Ensemble ------------------------------
(***************************************************************************)
(* General (mixed, possibly sub-normalised) states of the supported class: *)
(* finite ensembles of stabilizer groups with exact rational weights.      *)
(*   ens : set of records [g |-> group, w |-> <<num, den>>]  (merged by g) *)
(* The observable is the Pauli vector P |-> Tr(rho P), which determines    *)
(* rho; conformance always compares Pauli vectors, never decompositions.   *)
(* Rationals are <<num, den>> with den > 0, kept in lowest terms.          *)
(***************************************************************************)
EXTENDS StabState

RECURSIVE Gcd(_, _)
Gcd(a, b) == IF b = 0 THEN a ELSE Gcd(b, a % b)
Abs(a) == IF a < 0 THEN -a ELSE a
Norm(n, d) == IF n = 0 THEN <<0, 1>> ELSE LET g == Gcd(Abs(n), d) IN <<n \div g, d \div g>>
\* over the least common denominator / with cross-cancellation first: TLC integers are 32 bit, and the denominators of
\* one circuit's weights multiply up to 2^26 (the plain cross-multiplied forms overflow on deep noisy circuits)
RAdd(a, b) == LET g == Gcd(a[2], b[2]) IN Norm(a[1] * (b[2] \div g) + b[1] * (a[2] \div g), (a[2] \div g) * b[2])
RMul(a, b) == LET g1 == Gcd(Abs(a[1]), b[2]) g2 == Gcd(Abs(b[1]), a[2])
                  h1 == IF g1 = 0 THEN 1 ELSE g1 h2 == IF g2 = 0 THEN 1 ELSE g2 IN
              Norm((a[1] \div h1) * (b[1] \div h2), (a[2] \div h2) * (b[2] \div h1))
RNeg(a) == <<-a[1], a[2]>>
RSub(a, b) == RAdd(a, RNeg(b))
RDiv(a, b) == IF b[1] > 0 THEN RMul(a, <<b[2], b[1]>>) ELSE RMul(a, <<-b[2], -b[1]>>)
RZero == <<0, 1>>
ROne == <<1, 1>>
RLeq(a, b) == a[1] * b[2] <= b[1] * a[2]
RIsZero(a) == a[1] = 0
REq(a, b) == a[1] * b[2] = b[1] * a[2]

Branch(G, w) == [g |-> G, w |-> w]
Pure(G) == {Branch(G, ROne)}
Groups(ens) == {b.g : b \in ens}
RSumW(S) == FoldSet(LAMBDA b, acc : RAdd(b.w, acc), RZero, S)
\* merge branches with the same group; drop zero weights.  `tagged` may hold records with extra fields
MergeTagged(tagged) ==
  LET merged == {Branch(G, RSumW({b \in tagged : b.g = G})) : G \in {b.g : b \in tagged}}
  IN {b \in merged : ~RIsZero(b.w)}
TotalWeight(ens) == RSumW(ens)
NEns(ens) == NOf((CHOOSE b \in ens : TRUE).g)

MapGroups(ens, f(_)) == MergeTagged({[g |-> f(b.g), w |-> b.w, t |-> b.g] : b \in ens})
Scale(ens, r) == {b \in {Branch(b0.g, RMul(b0.w, r)) : b0 \in ens} : ~RIsZero(b.w)}

(***************************************************************************)
(* Pauli vector.                                                           *)
(***************************************************************************)
Expect(G, p) == IF SP(0, p) \in G THEN 1 ELSE IF SP(1, p) \in G THEN -1 ELSE 0
PV(ens, p) ==
  FoldSet(LAMBDA b, acc : RAdd(acc, LET e == Expect(b.g, p) IN <<e * b.w[1], b.w[2]>>), RZero, ens)

\* observed Pauli vectors: flat sequence of <<num, den>> over all 4^n strings in base-4 order
PVMatches(ens, n, vec) ==
  /\ Len(vec) = 4 ^ n
  /\ \A p \in AllStrings(n) : LET o == vec[PIndex(p) + 1] IN REq(PV(ens, p), <<o[1], o[2]>>)
\* the all-zero state of weight 0 (everything lost)
PVAllZero(n, vec) == Len(vec) = 4 ^ n /\ \A k \in 1..Len(vec) : vec[k][1] = 0

(***************************************************************************)
(* Selective measurement of observable obs with outcome m on a mixture.    *)
(* p_i(m) in {0, 1/2, 1}; the post-measurement ensemble is renormalised to *)
(* the total weight it had before (the weight carries photon survival).    *)
(***************************************************************************)
ProbM(ens, obs, m) ==      \* unnormalised: sum_i w_i p_i(m)
  FoldSet(LAMBDA b, acc : RAdd(acc, RMul(b.w, <<TwiceProb(b.g, obs, m), 2>>)), RZero, ens)
PossibleE(ens, obs, m) == ~RIsZero(ProbM(ens, obs, m))
PostE(ens, obs, m) ==
  LET pm == ProbM(ens, obs, m)
      W == TotalWeight(ens)
      tagged == {[g |-> Post(b.g, obs, m), t |-> b.g,
                  w |-> RDiv(RMul(RMul(b.w, <<TwiceProb(b.g, obs, m), 2>>), W), pm)]
                 : b \in {c \in ens : TwiceProb(c.g, obs, m) # 0}}
  IN MergeTagged(tagged)
AllowedOutcomesE(ens, obs, setting) ==
  LET poss == {m \in 0..1 : PossibleE(ens, obs, m)} IN
  IF setting \in {0, 1} THEN (IF setting \in poss THEN {setting} ELSE poss) ELSE poss

(***************************************************************************)
(* Noise channels.                                                         *)
(***************************************************************************)
\* depolarizing with strength p on qubit a: (1-p) rho + p/3 (X rho X + Y rho Y + Z rho Z)
Depolarize(ens, a, p) ==
  LET q == RMul(p, <<1, 3>>)
      keep == RSub(ROne, p)
      tagged == {[t |-> <<0, b.g>>, g |-> b.g, w |-> RMul(b.w, keep)] : b \in ens}
           \cup {[t |-> <<1, b.g>>, g |-> Gate1(b.g, "X", a), w |-> RMul(b.w, q)] : b \in ens}
           \cup {[t |-> <<2, b.g>>, g |-> Gate1(b.g, "Y", a), w |-> RMul(b.w, q)] : b \in ens}
           \cup {[t |-> <<3, b.g>>, g |-> Gate1(b.g, "Z", a), w |-> RMul(b.w, q)] : b \in ens}
  IN MergeTagged(tagged)
PauliError(ens, a, letter) ==
  CASE letter = 0 -> ens
    [] letter = 1 -> MapGroups(ens, LAMBDA G : Gate1(G, "X", a))
    [] letter = 2 -> MapGroups(ens, LAMBDA G : Gate1(G, "Z", a))
    [] letter = 3 -> MapGroups(ens, LAMBDA G : Gate1(G, "Y", a))
\* photon loss with loss probability r: the surviving weight is (1 - r)
Loss(ens, r) == Scale(ens, RSub(ROne, r))

(***************************************************************************)
(* Fidelity with a pure stabilizer target, reduced states.                 *)
(***************************************************************************)
FidelityPure(ens, T) ==
  FoldSet(LAMBDA b, acc : RAdd(acc, RMul(b.w, <<FidelityNum(b.g, T), Cardinality(T)>>)), RZero, ens)
WeightsNonNeg(ens) == \A b \in ens : b.w[1] >= 0 /\ b.w[2] > 0
=============================================================================
