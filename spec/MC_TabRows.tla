---------------------------- MODULE MC_TabRows ----------------------------
(***************************************************************************)
(* Role M + G for C07: the machine whose states are ALL Clifford tableaux  *)
(* on N qubits reachable from the identity tableau under H, P, CNOT        *)
(* (N = 2: 720 symplectic matrices x 16 sign vectors = 11,520; N = 1: 24). *)
(* Each distinct state is printed once as JSON (role G input).             *)
(***************************************************************************)
EXTENDS StabState, TLC, Json
CONSTANT N
VARIABLE rows
Q == 1..N
Init == rows = [k \in 1..(2 * N) |-> IF k <= N THEN SP(0, XAt(N, k)) ELSE SP(0, ZAt(N, k - N))]
Map(f(_)) == rows' = [k \in 1..(2 * N) |-> f(rows[k])]
Next == \/ \E a \in Q : Map(LAMBDA g : Apply1("H", g, a)) \/ Map(LAMBDA g : Apply1("P", g, a))
        \/ \E c, t \in Q : c # t /\ Map(LAMBDA g : ApplyCX(g, c, t))
Spec == Init /\ [][Next]_rows
D(j) == rows[j]
S(j) == rows[N + j]
Paired == \A j, k \in Q : /\ Commute(S(j), S(k)) /\ Commute(D(j), D(k))
                          /\ (Commute(D(j), S(k)) <=> j # k)
StabValid == IsStabGroup(GenGroup([j \in Q |-> S(j)], N), N)
Dump == PrintT(<<"ST", ToJson(rows)>>)
=============================================================================
