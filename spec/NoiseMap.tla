------------------------------ MODULE NoiseMap ------------------------------
(***************************************************************************)
(* Extension X06: the Monte-Carlo noise map (noise/monte_carlo_noise.py,   *)
(* class McNoiseMap) as a sequential state machine.  State: for each       *)
(* register kind ("e", "p", "ee", "ep") and gate name either nothing or a  *)
(* list of <<noise id, probability>>; probabilities are counted in eighths *)
(* (exact as floats).  Each call is an operator returning                  *)
(* <<next state, error, returned value>>.  The object's contract: the      *)
(* probabilities listed for one gate never add up to more than 1           *)
(* (SumBound), and a call that raises leaves the map as it was.            *)
(***************************************************************************)
EXTENDS Naturals, Sequences
Kinds == {"e", "p", "ee", "ep"}
One == 8                                            \* probability 1 in eighths
Absent == [has |-> FALSE, l |-> <<>>]
Entry(l) == [has |-> TRUE, l |-> l]
Tuple(id, p, isfloat) == [id |-> id, p |-> p, f |-> isfloat]
RECURSIVE SumP(_)
SumP(l) == IF l = <<>> THEN 0 ELSE Head(l).p + SumP(Tail(l))
EmptyMap(Gates) == [k \in Kinds |-> [g \in Gates |-> Absent]]
SumBound(m) == \A k \in DOMAIN m : \A g \in DOMAIN m[k] : SumP(m[k][g].l) <= One

\* add_noise_tuple(kind, gate, (noise, probability)): appended to the gate's list (a new list if the gate had none);
\* refused - map unchanged - when the probability is not a float or the gate's total would exceed 1
AddTuple(m, k, g, t) ==
  IF k \notin Kinds THEN <<m, "KeyError", 0>>
  ELSE IF ~t.f \/ SumP(m[k][g].l) + t.p > One THEN <<m, "AssertionError", 0>>
  ELSE <<[m EXCEPT ![k][g] = Entry(Append(m[k][g].l, [id |-> t.id, p |-> t.p]))], "", 0>>
\* add_gate_noise(kind, gate, list): an existing list is emptied first, then the tuples are added one by one; the call
\* stops at the first tuple that is refused (what was added before it stays: the call is NOT atomic, as in the code)
RECURSIVE AddAll(_, _, _, _)
AddAll(m, k, g, ts) ==
  IF ts = <<>> THEN <<m, "", 0>>
  ELSE LET r == AddTuple(m, k, g, Head(ts)) IN IF r[2] # "" THEN r ELSE AddAll(r[1], k, g, Tail(ts))
AddGate(m, k, g, ts) ==
  IF k \notin Kinds THEN <<m, "KeyError", 0>>
  ELSE AddAll(IF m[k][g].has THEN [m EXCEPT ![k][g] = Entry(<<>>)] ELSE m, k, g, ts)
\* total_noise_prob / get_gate_noise: queries
Total(m, k, g) == IF k \notin Kinds THEN <<m, "KeyError", 0>> ELSE <<m, "", SumP(m[k][g].l)>>
GetNoise(m, k, g) ==
  IF k \notin Kinds THEN <<m, "KeyError", <<>>>>
  ELSE LET tot == SumP(m[k][g].l) IN
       <<m, "", IF tot = 0 THEN <<>> ELSE Append(m[k][g].l, [id |-> "NoNoise", p |-> One - tot])>>
\* what a Monte-Carlo draw for one gate may return: a listed noise with positive probability, or no noise when the
\* listed probabilities leave room for it (a gate that is not listed, or listed with nothing, gets no noise)
Allowed(m, k, g) ==
  IF ~m[k][g].has THEN {"NoNoise"}
  ELSE {m[k][g].l[i].id : i \in {j \in DOMAIN m[k][g].l : m[k][g].l[j].p > 0}}
       \cup (IF SumP(m[k][g].l) < One THEN {"NoNoise"} ELSE {})
=============================================================================
