--------------------------- MODULE Trace_Tableau ---------------------------
(***************************************************************************)
(* Role J / G for C07 (and the tableau legs of C11): histories of calls    *)
(* on the real CliffordTableau API, each event carrying the raw tableau    *)
(* observed after the call.  The spec state is the abstract group; an      *)
(* event is accepted iff the observed tableau is valid (binary,            *)
(* symplectic/paired, hermitian stabilizers) and generates one of the      *)
(* groups textbook semantics allows for that call.  Verdicts are total.    *)
(***************************************************************************)
EXTENDS Tableau, TLC, Json, IOUtils

Traces == JsonDeserialize(IOEnv.TRACE_FILE)

VARIABLES tid, l, why, failed, grp
vars == <<tid, l, why, failed, grp>>

\* "star" traces apply every event to the INITIAL tableau (role G: one action from each enumerated state)
Star(t) == Traces[t].star

Events(t) == Traces[t].events

\* a gate list applied left to right; gates are records [g, a, b] (b = 0 for one-qubit gates)
ApplyGate(G, gt) ==
  IF gt.g \in OneQubitGates THEN Gate1(G, gt.g, gt.a) ELSE Gate2(G, gt.g, gt.a, gt.b)
RECURSIVE RunGates(_, _)
RunGates(G, gates) == IF gates = <<>> THEN G ELSE RunGates(ApplyGate(G, Head(gates)), Tail(gates))
Inv(gt) == IF gt.g = "P" THEN [gt EXCEPT !.g = "PD"] ELSE IF gt.g = "PD" THEN [gt EXCEPT !.g = "P"] ELSE gt
Reverse(s) == [k \in 1..Len(s) |-> s[Len(s) + 1 - k]]
InverseGates(gates) == [k \in 1..Len(gates) |-> Inv(Reverse(gates)[k])]

RECURSIVE TensorAll(_, _)
TensorAll(G, others) ==
  IF others = <<>> THEN G ELSE TensorAll(TensorG(G, TGroup(Head(others))), Tail(others))

\* positions to discard, highest first, given the kept ones (so indices stay valid while removing)
RECURSIVE DescSeq(_)
DescSeq(S) == IF S = {} THEN <<>> ELSE LET m == Max(S) IN <<m>> \o DescSeq(S \ {m})

ArgsOK(G, e) ==
  LET n == NOf(G) IN
  CASE e.ev = "g1" -> e.a \in 1..n /\ e.g \in OneQubitGates
    [] e.ev = "g2" -> e.a \in 1..n /\ e.b \in 1..n /\ e.a # e.b /\ e.g \in TwoQubitGates
    [] e.ev = "swap" -> e.a \in 1..n /\ e.b \in 1..n
    [] e.ev = "measz" -> e.a \in 1..n /\ e.out \in 0..1
    [] e.ev = "reset" -> e.a \in 1..n /\ e.basis \in 1..3 /\ e.v \in 0..1
    [] e.ev = "insert" -> e.k \in 1..(n + 1)
    [] e.ev = "remove" -> e.a \in 1..n /\ n >= 2
    [] e.ev = "ptrace" -> {e.keep[x] : x \in DOMAIN e.keep} \subseteq 1..n /\ Len(e.keep) >= 1
    [] e.ev = "tensor" -> \A k \in DOMAIN e.others : TClause(e.others[k]) = "ok"
    [] e.ev = "circuit" -> \A k \in DOMAIN e.gates :
                              LET gt == e.gates[k] IN
                              /\ gt.a \in 1..n
                              /\ (gt.g \in OneQubitGates \/ (gt.g \in {"CNOT", "CZ"} /\ gt.b \in 1..n /\ gt.b # gt.a))
    [] OTHER -> FALSE

\* the set of abstract successors textbook semantics allows for the call
Succ(G, e) ==
  LET n == NOf(G) IN
  CASE e.ev = "g1" -> {Gate1(G, e.g, e.a)}
    [] e.ev = "g2" -> {Gate2(G, e.g, e.a, e.b)}
    [] e.ev = "swap" -> {SwapG(G, e.a, e.b)}
    [] e.ev = "measz" -> {MeasZPost(G, e.a, e.out)}
    [] e.ev = "reset" -> ResetResults(G, e.a, e.basis, e.v)
    [] e.ev = "insert" -> {Insert0(G, e.k)}
    [] e.ev = "remove" -> RemoveResults(G, e.a, e.d)
    [] e.ev = "ptrace" -> RemoveSeqResults({G}, DescSeq((1..n) \ {e.keep[x] : x \in DOMAIN e.keep}))
    [] e.ev = "tensor" -> {TensorAll(G, e.others)}
    [] e.ev = "circuit" -> {RunGates(G, IF e.rev THEN InverseGates(e.gates) ELSE e.gates)}

ClauseName(e) ==
  CASE e.ev \in {"g1", "g2", "swap", "circuit"} -> "GroupOK"
    [] e.ev = "measz" -> "MeasOK"
    [] e.ev = "reset" -> "ResetOK"
    [] e.ev = "insert" -> "InsertOK"
    [] e.ev = "remove" -> "RemoveOK"
    [] e.ev = "ptrace" -> "TraceOK"
    [] e.ev = "tensor" -> "TensorOK"

\* "same": the tableau the caller still holds (the source a working tableau was built from with the array constructor, or
\* its sibling) observed after an operation on the OTHER object - it must be exactly what it was (star traces only)
Verdict(G, e) ==
  LET o == e.post IN
  IF e.ev = "same" THEN (IF o = Traces[tid].init THEN "ok" ELSE "SourceUnchanged")
  ELSE IF ~ArgsOK(G, e) THEN "HarnessBadArgs"
  ELSE IF o.err # "" THEN "Raised"
  ELSE LET c == TClause(o) IN
    IF c # "ok" THEN c
    ELSE IF e.ev = "measz" /\ e.out \notin AllowedOutcomes(G, ZObs(NOf(G), e.a), e.d) THEN "OutcomeOK"
    ELSE IF TGroup(o) \in Succ(G, e) THEN "ok"
    ELSE ClauseName(e)

Init ==
  /\ tid \in 1..Len(Traces)
  /\ l = 1
  /\ LET c == TClause(Traces[tid].init) IN
       /\ why = IF c = "ok" THEN "ok" ELSE "Init" \o c
       /\ failed = (c # "ok")
       /\ grp = IF c = "ok" THEN TGroup(Traces[tid].init) ELSE {}

Next ==
  /\ (why = "ok" \/ (Star(tid) /\ grp # {}))
  /\ l <= Len(Events(tid))
  /\ LET e == Events(tid)[l] v == Verdict(grp, e) IN
       /\ why' = v
       /\ failed' = (failed \/ v # "ok")
       /\ grp' = IF v = "ok" /\ ~Star(tid) THEN TGroup(e.post) ELSE grp
  /\ l' = l + 1
  /\ tid' = tid

TraceSpec == Init /\ [][Next]_vars

Cause == IF l = 1 THEN "init" ELSE LET e == Events(tid)[l - 1] IN
           IF e.ev \in {"g1", "g2"} THEN e.g ELSE IF e.ev = "same" THEN e.after ELSE e.ev

Report ==
  /\ (why # "ok") => PrintT(<<"REJECT", Traces[tid].tid, l - 1, why, Cause>>)
  /\ (~failed /\ l = Len(Events(tid)) + 1) => PrintT(<<"DONE", Traces[tid].tid>>)
=============================================================================
