----------------------------- MODULE Trace_Graphs -----------------------------
(***************************************************************************)
(* Function judgements on graphs (C08, C09, C10, C16).  A trace has        *)
(*   n, base : the edge list of a base graph G1 on 1..n                    *)
(*   events  : independent calls of the real functions                     *)
(* The LC orbit of the base graph is computed ONCE per trace (state        *)
(* variable orb) by the fixpoint of local complementation - ground truth   *)
(* for "LC-equivalent", independent of any linear-algebra test.            *)
(***************************************************************************)
EXTENDS Graphs, Tableau, Ensemble, TLC, Json, IOUtils

Traces == JsonDeserialize(IOEnv.TRACE_FILE)
VARIABLES tid, l, why, cause, failed, orb
vars == <<tid, l, why, cause, failed, orb>>
Events(t) == Traces[t].events
N(t) == Traces[t].n
Base(t) == FromEdges(N(t), Traces[t].base)

GS(G, n) == GraphState(n, EdgeSetOf(G, n))
ApplyGate(G, gt) ==
  IF gt.g \in OneQubitGates THEN Gate1(G, gt.g, gt.a) ELSE Gate2(G, gt.g, gt.a, gt.b)
RECURSIVE RunGates(_, _)
RunGates(G, gates) == IF gates = <<>> THEN G ELSE RunGates(ApplyGate(G, Head(gates)), Tail(gates))
GatesOK(gates, n) ==
  \A k \in DOMAIN gates : LET gt == gates[k] IN
     /\ gt.a \in 1..n
     /\ (gt.g \in OneQubitGates \/ (gt.g \in TwoQubitGates /\ gt.b \in 1..n /\ gt.b # gt.a))
Unsigned(G) == {g.p : g \in G}

\* a graph given as an edge list in an event; "bad" marks outputs that were not simple graphs on 1..n
GOf(n, x) == FromEdges(n, x.edges)
GraphOK(n, x) == x.bad = "" /\ x.n = n /\ EdgesWellFormed(n, x.edges)

Verdict(t, e) ==
  LET n == N(t) G1 == Base(t) IN
  CASE e.fn = "lc_decide" ->
         \* out.yes for the pair (base, g2)
         LET G2 == FromEdges(n, e.g2) inorbit == G2 \in orb IN
         IF e.out.err # "" THEN <<"Raised", e.via>>
         ELSE IF e.out.yes /\ ~inorbit THEN <<"Soundness", e.via>>
         ELSE IF ~e.out.yes /\ inorbit
              THEN <<"Completeness", IF ~Connected(G1, n) /\ e.dim >= 5
                                      THEN "disconnected-first-graph:solution-space-dim>=5" ELSE e.via>>
         ELSE <<"ok", "">>
    [] e.fn = "lc_decide_cert" ->
         \* a pair that IS equivalent by certificate (e.cert: a local-complementation sequence, replayed here, leading from
         \* base to g2): the answer must be yes - completeness on graphs too large to enumerate the orbit for every pair
         LET G2 == FromEdges(n, e.g2) IN
         IF (\E k \in DOMAIN e.cert : e.cert[k] \notin 1..n) \/ LCSeq(G1, n, e.cert, 1) # G2 THEN <<"HarnessCertInvalid", e.via>>
         ELSE IF e.out.err # "" THEN <<"Raised", e.via>>
         ELSE IF ~e.out.yes
              THEN <<"Completeness", IF ~Connected(G1, n) /\ e.dim >= 5
                                      THEN "disconnected-first-graph:solution-space-dim>=5" ELSE e.via>>
         ELSE <<"ok", "">>
    [] e.fn = "lc_gates" ->
         \* out.gates transforms |base> into |g2> exactly (lc_check / converter)
         LET G2 == FromEdges(n, e.g2) IN
         IF e.out.err # "" THEN <<"Raised", e.via>>
         ELSE IF ~GatesOK(e.out.gates, n) THEN <<"GateListWellFormed", e.via>>
         ELSE IF RunGates(GS(G1, n), e.out.gates) # GS(G2, n) THEN
              (IF Unsigned(RunGates(GS(G1, n), e.out.gates)) = Unsigned(GS(G2, n))
               THEN <<"CliffordsOK", "sign-only">> ELSE <<"CliffordsOK", e.via>>)
         ELSE <<"ok", "">>
    [] e.fn = "lc_blocks" ->
         \* the raw solution as per-vertex gate words: must map |base> onto |g2> up to signs
         LET G2 == FromEdges(n, e.g2) IN
         IF ~GatesOK(e.gates, n) THEN <<"GateListWellFormed", e.via>>
         ELSE IF Unsigned(RunGates(GS(G1, n), e.gates)) # Unsigned(GS(G2, n)) THEN <<"CliffordsUpToSign", e.via>>
         ELSE <<"ok", "">>
    [] e.fn = "lc_sequence" ->
         LET G2 == FromEdges(n, e.g2) IN
         IF e.out.err # "" THEN <<"Raised", e.via>>
         ELSE IF \E k \in DOMAIN e.out.seq : e.out.seq[k] \notin 1..n THEN <<"SequenceWellFormed", e.via>>
         ELSE IF LCSeq(G1, n, e.out.seq, 1) # G2 THEN <<"SequenceOK", e.via>>
         ELSE <<"ok", "">>
    [] e.fn = "local_comp" ->
         IF e.out.err # "" THEN <<"Raised", e.via>>
         ELSE IF ~GraphOK(n, e.out) THEN <<"OutputIsGraph", e.via>>
         ELSE IF GOf(n, e.out) # LocalComp(G1, n, e.v) THEN <<"LocalCompOK", e.via>>
         ELSE <<"ok", "">>
    [] e.fn = "relabel" ->
         \* out = relabel(base, p): edge (p(u), p(v)) iff edge (u, v)
         IF e.out.err # "" THEN <<"Raised", "relabel">>
         ELSE IF ~GraphOK(n, e.out) THEN <<"OutputIsGraph", "relabel">>
         ELSE IF ~IsPerm(n, e.p) THEN <<"HarnessNotPerm", "relabel">>
         ELSE IF GOf(n, e.out) # Relabel(G1, n, e.p) THEN <<"RelabelOK", "relabel">>
         ELSE <<"ok", "">>
    [] e.fn = "relabel_map" ->
         \* map (vertex v of base |-> map[v]) must be an isomorphism base -> g2
         LET G2 == FromEdges(n, e.g2) IN
         IF e.out.err # "" THEN <<"Raised", "get_relabel_map">>
         ELSE IF ~IsPerm(n, e.out.map) THEN <<"MapIsPerm", "get_relabel_map">>
         ELSE IF ~IsIsoBy(G1, G2, n, e.out.map) THEN <<"MapIsIso", "get_relabel_map">>
         ELSE <<"ok", "">>
    [] e.fn = "iso_finder" ->
         \* out.graphs: returned adjacency matrices as graphs, in order
         IF e.out.err # "" THEN <<"Raised", "iso_finder">>
         ELSE IF \E k \in DOMAIN e.out.graphs : ~GraphOK(n, e.out.graphs[k]) THEN <<"OutputIsGraph", "iso_finder">>
         ELSE LET gs == [k \in DOMAIN e.out.graphs |-> GOf(n, e.out.graphs[k])] IN
           IF Len(gs) > e.n_iso THEN <<"NeverMoreThanRequested", "iso_finder">>
           ELSE IF Len(gs) = 0 \/ (~e.sorted /\ gs[1] # G1) THEN <<"InputFirst", "iso_finder">>
           ELSE IF e.sorted /\ G1 \notin {gs[k] : k \in DOMAIN gs} THEN <<"InputPresent", "iso_finder">>
           ELSE IF Cardinality({gs[k] : k \in DOMAIN gs}) # Len(gs) THEN <<"PairwiseDistinct", "iso_finder">>
           ELSE IF \E k \in DOMAIN gs : ~Isomorphic(G1, gs[k], n) THEN <<"AllIsomorphic", "iso_finder">>
           ELSE <<"ok", "">>
    [] e.fn = "iso_finder_cert" ->
         \* as iso_finder, on graphs too large for a search over all permutations: the harness supplies for every returned
         \* graph a permutation (e.certs[k]) and TLC verifies that it is an isomorphism from base onto it
         IF e.out.err # "" THEN <<"Raised", "iso_finder">>
         ELSE IF \E k \in DOMAIN e.out.graphs : ~GraphOK(n, e.out.graphs[k]) THEN <<"OutputIsGraph", "iso_finder">>
         ELSE LET gs == [k \in DOMAIN e.out.graphs |-> GOf(n, e.out.graphs[k])] IN
           IF Len(gs) > e.n_iso THEN <<"NeverMoreThanRequested", "iso_finder">>
           ELSE IF Len(gs) = 0 \/ (~e.sorted /\ gs[1] # G1) THEN <<"InputFirst", "iso_finder">>
           ELSE IF e.sorted /\ G1 \notin {gs[k] : k \in DOMAIN gs} THEN <<"InputPresent", "iso_finder">>
           ELSE IF Cardinality({gs[k] : k \in DOMAIN gs}) # Len(gs) THEN <<"PairwiseDistinct", "iso_finder">>
           ELSE IF Len(e.certs) # Len(gs) \/ \E k \in DOMAIN gs : ~IsIsoBy(G1, gs[k], n, e.certs[k]) THEN <<"AllIsomorphic", "iso_finder">>
           ELSE <<"ok", "">>
    [] e.fn = "orbit_cert" ->
         \* as orbit, on graphs whose whole orbit is out of reach: membership is certified by a local-complementation
         \* sequence per returned graph (found by the harness, replayed here)
         IF e.out.err # "" THEN <<"Raised", e.via>>
         ELSE IF \E k \in DOMAIN e.out.graphs : ~GraphOK(n, e.out.graphs[k]) THEN <<"OutputIsGraph", e.via>>
         ELSE LET gs == [k \in DOMAIN e.out.graphs |-> GOf(n, e.out.graphs[k])] IN
           IF Len(e.certs) # Len(gs) \/ \E k \in DOMAIN gs :
                   (\E j \in DOMAIN e.certs[k] : e.certs[k][j] \notin 1..n) \/ LCSeq(G1, n, e.certs[k], 1) # gs[k]
           THEN <<"OrbitMember", e.via>>
           ELSE IF e.distinct /\ Cardinality({gs[k] : k \in DOMAIN gs}) # Len(gs) THEN <<"OrbitDistinct", e.via>>
           ELSE <<"ok", "">>
    [] e.fn = "iso_graph_finder" ->
         \* every relabelling of the base graph, one per permutation of the vertices
         IF e.out.err # "" THEN <<"Raised", "iso_graph_finder">>
         ELSE IF \E k \in DOMAIN e.out.graphs : ~GraphOK(n, e.out.graphs[k]) THEN <<"OutputIsGraph", "iso_graph_finder">>
         ELSE IF Len(e.out.graphs) # Cardinality(Perms(n))
                 \/ {GOf(n, e.out.graphs[k]) : k \in DOMAIN e.out.graphs} # {Relabel(G1, n, p) : p \in Perms(n)}
              THEN <<"IsoFinderAll", "iso_graph_finder">>
         ELSE <<"ok", "">>
    [] e.fn = "iso_equal_check" ->
         \* "is the base graph LC-equivalent to SOME graph isomorphic to g2": yes exactly when the orbit of the base meets
         \* the isomorphism class of g2; the graph handed back is then such a graph, otherwise the base itself
         LET G2 == FromEdges(n, e.g2) hit == \E H \in orb : Isomorphic(H, G2, n) IN
         IF e.out.err # "" THEN <<"Raised", "iso_equal_check">>
         ELSE IF ~GraphOK(n, e.out.graph) THEN <<"OutputIsGraph", "iso_equal_check">>
         ELSE IF e.out.res # hit THEN <<"IsoEqualDecision", IF hit /\ e.dim >= 5 /\ ~e.connected THEN "disconnected-first-graph:solution-space-dim>=5" ELSE "iso_equal_check">>
         ELSE IF e.out.res /\ ~(GOf(n, e.out.graph) \in orb /\ Isomorphic(GOf(n, e.out.graph), G2, n)) THEN <<"IsoEqualWitness", "iso_equal_check">>
         ELSE IF ~e.out.res /\ GOf(n, e.out.graph) # G1 THEN <<"IsoEqualWitness", "iso_equal_check">>
         ELSE <<"ok", "">>
    [] e.fn = "remove_iso" ->
         \* ins: a list of graphs on n vertices; out.graphs: the list remove_iso made of it - members of the input list,
         \* pairwise non-isomorphic, and every input graph isomorphic to one that was kept
         IF e.out.err # "" THEN <<"Raised", "remove_iso">>
         ELSE IF \E k \in DOMAIN e.out.graphs : ~GraphOK(n, e.out.graphs[k]) THEN <<"OutputIsGraph", "remove_iso">>
         ELSE LET ins == [k \in DOMAIN e.ins |-> FromEdges(n, e.ins[k])]
                  outs == [k \in DOMAIN e.out.graphs |-> GOf(n, e.out.graphs[k])] IN
           IF \E k \in DOMAIN outs : outs[k] \notin {ins[j] : j \in DOMAIN ins} THEN <<"RemoveIsoFromInput", "remove_iso">>
           ELSE IF \E j, k \in DOMAIN outs : j < k /\ Isomorphic(outs[j], outs[k], n) THEN <<"RemoveIsoDistinct", "remove_iso">>
           ELSE IF \E j \in DOMAIN ins : \A k \in DOMAIN outs : ~Isomorphic(ins[j], outs[k], n) THEN <<"RemoveIsoComplete", "remove_iso">>
           ELSE <<"ok", "">>
    [] e.fn = "orbit" ->
         \* out.graphs: graphs returned by an LC-orbit explorer started from base
         IF e.out.err # "" THEN <<"Raised", e.via>>
         ELSE IF \E k \in DOMAIN e.out.graphs : ~GraphOK(n, e.out.graphs[k]) THEN <<"OutputIsGraph", e.via>>
         ELSE LET gs == [k \in DOMAIN e.out.graphs |-> GOf(n, e.out.graphs[k])] IN
           IF \E k \in DOMAIN gs : gs[k] \notin orb THEN <<"OrbitMember", e.via>>
           ELSE IF e.distinct /\ Cardinality({gs[k] : k \in DOMAIN gs}) # Len(gs) THEN <<"OrbitDistinct", e.via>>
           ELSE <<"ok", "">>
    [] e.fn = "to_pv" ->
         \* a density matrix that must be |base>: graph_to_density, convert_representation(.. -> dm)
         \* (has_st: the stabilizer tableau the conversion started from - |base> in another generating set; the cause
         \*  names the input class when that tableau carries a minus sign: stabilizer_to_density reads unsigned strings)
         IF e.has_st /\ TClause(e.st) # "ok" THEN <<"HarnessInputInvalid", e.via>>
         ELSE IF e.has_st /\ TGroup(e.st) # GS(G1, n) THEN <<"HarnessInputNotBase", e.via>>
         ELSE IF e.out.err # "" THEN <<"Raised", e.via>>
         ELSE IF e.out.bad # "" THEN <<"ObsInvalid", e.via>>
         ELSE IF ~PVMatches(Pure(GS(G1, n)), n, e.out.vec) THEN
              <<"StatePreserved", IF e.has_st /\ \E k \in (e.st.n + 1)..(2 * e.st.n) : e.st.r[k] = 1
                                  THEN "stabilizer-rows-with-minus-sign" ELSE e.via>>
         ELSE <<"ok", "">>
    [] e.fn = "to_stab" ->
         \* a stabilizer / Clifford tableau that must be |base>
         IF e.out.err # "" THEN <<"Raised", e.via>>
         ELSE LET c == IF e.out.kind = "T" THEN TClause(e.out) ELSE SClause(e.out) IN
           IF c # "ok" THEN <<"Obs" \o c, e.via>>
           ELSE IF (IF e.out.kind = "T" THEN TGroup(e.out) ELSE SGroup(e.out)) # GS(G1, n) THEN <<"StatePreserved", e.via>>
           ELSE <<"ok", "">>
    [] e.fn = "to_graph" ->
         \* a graph that must be the base graph (density_to_graph, stabilizer_to_graph, convert_representation(.. -> g))
         IF e.has_st /\ (IF e.st.kind = "T" THEN TClause(e.st) ELSE SClause(e.st)) # "ok" THEN <<"HarnessInputInvalid", e.via>>
         ELSE IF e.has_st /\ (IF e.st.kind = "T" THEN TGroup(e.st) ELSE SGroup(e.st)) # GS(G1, n)
              THEN <<"HarnessInputNotBase", e.via>>
         ELSE IF e.out.err # "" THEN <<"Raised", e.via>>
         ELSE IF ~GraphOK(n, e.out) THEN <<"OutputIsGraph", e.via>>
         ELSE IF GOf(n, e.out) # G1 THEN <<"GraphRecovered", e.via>>
         ELSE <<"ok", "">>
    [] e.fn = "state_to_graph" ->
         \* input: stabilizer state (S / T observation e.st); out: graph + gates mapping the state onto |graph> exactly
         LET c == IF e.st.kind = "T" THEN TClause(e.st) ELSE SClause(e.st)
             grp == IF e.st.kind = "T" THEN TGroup(e.st) ELSE SGroup(e.st) IN
         IF c # "ok" THEN <<"InputInvalid", e.via>>
         ELSE IF e.out.err # "" THEN <<"Raised", e.via>>
         ELSE IF ~GraphOK(e.st.n, e.out) THEN <<"OutputIsGraph", e.via>>
         ELSE IF ~GatesOK(e.out.gates, e.st.n) THEN <<"GateListWellFormed", e.via>>
         ELSE IF RunGates(grp, e.out.gates) # GS(GOf(e.st.n, e.out), e.st.n) THEN
              (IF Unsigned(RunGates(grp, e.out.gates)) = Unsigned(GS(GOf(e.st.n, e.out), e.st.n))
               THEN <<"StateToGraphOK", "sign-only">> ELSE <<"StateToGraphOK", e.via>>)
         ELSE <<"ok", "">>
    [] e.fn = "lc_states" ->
         \* lc_check on two stabilizer STATES given as tableaux (signs, local Cliffords, any generating set): e.st1 is a
         \* local-Clifford image of |base>, e.st2 of |g2> (both facts re-checked here); the answer must be yes exactly
         \* when base and g2 are LC equivalent, and on yes the returned gates must map state 1 onto state 2 exactly
         LET G2 == FromEdges(n, e.g2)
             c1 == IF e.st1.kind = "T" THEN TClause(e.st1) ELSE SClause(e.st1)
             c2 == IF e.st2.kind = "T" THEN TClause(e.st2) ELSE SClause(e.st2)
             grp1 == IF e.st1.kind = "T" THEN TGroup(e.st1) ELSE SGroup(e.st1)
             grp2 == IF e.st2.kind = "T" THEN TGroup(e.st2) ELSE SGroup(e.st2) IN
         IF c1 # "ok" \/ c2 # "ok" THEN <<"InputInvalid", e.via>>
         ELSE IF ~GatesOK(e.pre1, n) \/ ~GatesOK(e.pre2, n) THEN <<"HarnessGateList", e.via>>
         ELSE IF RunGates(GS(G1, n), e.pre1) # grp1 \/ RunGates(GS(G2, n), e.pre2) # grp2 THEN <<"HarnessStateInvalid", e.via>>
         ELSE IF e.out.err # "" THEN <<"Raised", e.via>>
         ELSE IF e.out.yes /\ G2 \notin orb THEN <<"Soundness", e.via>>
         ELSE IF ~e.out.yes /\ G2 \in orb THEN
              \* cause: the graph pair the decision procedure was really run on (e.ga / e.dim: graph of state 1 as the
              \* library converts it, dimension of the linear solution space) - the known incompleteness C09-K1
              <<"Completeness", IF EdgesWellFormed(n, e.ga) /\ ~Connected(FromEdges(n, e.ga), n) /\ e.dim >= 5
                                THEN "disconnected-first-graph:solution-space-dim>=5" ELSE e.via>>
         ELSE IF ~e.out.yes THEN <<"ok", "">>
         ELSE IF ~GatesOK(e.out.gates, n) THEN <<"GateListWellFormed", e.via>>
         ELSE IF RunGates(grp1, e.out.gates) # grp2 THEN
              (IF Unsigned(RunGates(grp1, e.out.gates)) = Unsigned(grp2)
               THEN <<"CliffordsOK", "sign-only">> ELSE <<"CliffordsOK", e.via>>)
         ELSE <<"ok", "">>
    [] e.fn = "alt_result" ->
         \* entries of an alternate-target result: [map, graph]; base = the target graph
         IF e.err # "" THEN <<"Raised", e.via>>
         ELSE IF \E k \in DOMAIN e.entries : ~IsPerm(n, e.entries[k].map) THEN <<"MapIsPerm", e.via>>
         ELSE IF \E k \in DOMAIN e.entries : ~GraphOK(n, e.entries[k].graph) THEN <<"OutputIsGraph", e.via>>
         ELSE IF \E k \in DOMAIN e.entries :
                   GOf(n, e.entries[k].graph) \notin Orbit(Relabel(G1, n, e.entries[k].map), n) THEN <<"ListedLC", e.via>>
         ELSE IF Cardinality({GOf(n, e.entries[k].graph) : k \in DOMAIN e.entries}) # Len(e.entries)
              THEN <<"NoDuplicateGraphs", e.via>>
         ELSE <<"ok", "">>
    [] OTHER -> <<"HarnessUnknownFn", "">>

Init ==
  /\ tid \in 1..Len(Traces) /\ l = 1 /\ why = "ok" /\ cause = "" /\ failed = FALSE
  /\ orb = IF Traces[tid].need_orbit THEN Orbit(Base(tid), N(tid)) ELSE {}
Next ==
  /\ l <= Len(Events(tid))
  /\ LET v == Verdict(tid, Events(tid)[l]) IN
       why' = v[1] /\ cause' = v[2] /\ failed' = (failed \/ v[1] # "ok")
  /\ l' = l + 1 /\ tid' = tid /\ orb' = orb
TraceSpec == Init /\ [][Next]_vars
Report ==
  /\ (why # "ok") => PrintT(<<"REJECT", Traces[tid].tid, l - 1, why, cause>>)
  /\ (~failed /\ l = Len(Events(tid)) + 1) => PrintT(<<"DONE", Traces[tid].tid>>)
=============================================================================
