----------------------------- MODULE MC_LCOrbit -----------------------------
(***************************************************************************)
(* Role M for C09 / C16: the LC orbit machine.  Every labelled graph on N  *)
(* vertices is an initial state g0; g moves by local complementation.      *)
(* Lemmas: local complementation is an involution, toggles exactly the     *)
(* neighbour pairs, preserves the neighbourhood of the vertex, and the     *)
(* fixpoint Orbit(g0) contains every reachable g.                          *)
(***************************************************************************)
EXTENDS Graphs, TLC
CONSTANT N
VARIABLES g0, g
Init == g0 \in [Pairs(N) -> BOOLEAN] /\ g = g0
Next == \E v \in 1..N : g' = LocalComp(g, N, v) /\ g0' = g0
Spec == Init /\ [][Next]_<<g0, g>>
LCLemmas ==
  \A v \in 1..N :
    LET h == LocalComp(g, N, v) IN
    /\ LocalComp(h, N, v) = g
    /\ Nbrs(h, N, v) = Nbrs(g, N, v)
    /\ \A e \in Pairs(N) : (h[e] # g[e]) <=> (Adj(g, v, e[1]) /\ Adj(g, v, e[2]))
InOrbit == (g = g0) => \A v \in 1..N : LocalComp(g0, N, v) \in Orbit(g0, N)
=============================================================================
