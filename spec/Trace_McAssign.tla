--------------------------- MODULE Trace_McAssign ---------------------------
(***************************************************************************)
(* Role J for X08: Monte-Carlo noise assignment                            *)
(* (noise/monte_carlo_noise.py, MonteCarloNoise.assign_noise).  One event  *)
(* per (noise map, circuit, seed): the map (as in X06), the circuit's      *)
(* operations (kind, register kind, gates of a wrapper in the order they   *)
(* are applied) and, per operation, the noise ids found on the noisy copy, *)
(* twice (two fresh objects with the same seed).  ShapeOK: one noise entry *)
(* per gate of a wrapper, two per controlled pair, one otherwise;          *)
(* SupportOK: every entry is a noise the map allows for that gate          *)
(* (NoiseMap!Allowed); SeedDeterministic: the two draws agree.             *)
(***************************************************************************)
EXTENDS NoiseMap, TLC, Json, IOUtils
Traces == JsonDeserialize(IOEnv.TRACE_FILE)
VARIABLES tid, l, why
vars == <<tid, l, why>>
Events(t) == Traces[t].events
GatesOf(e) == {e.gates[i] : i \in DOMAIN e.gates}
Pairs(l0) == [i \in DOMAIN l0 |-> [id |-> l0[i][1], p |-> l0[i][2]]]
MapOf(e) == [k \in Kinds |-> [g \in GatesOf(e) |-> IF e.map[k][g].has THEN Entry(Pairs(e.map[k][g].l)) ELSE Absent]]
Slots(o) == IF o.kind = "OneQubitGateWrapper" THEN Len(o.w) ELSE IF Len(o.rk) = 2 THEN 2 ELSE 1
GateAt(o, j) == IF o.kind = "OneQubitGateWrapper" THEN o.w[j] ELSE o.kind
\* many draws for controlled pairs whose map lists ONE noise with probability 1/2: the control's and the target's noise
\* are drawn separately, so among total >= 64 pairs some must differ and some must agree (each has probability 1/2)
PairsVerdict(e) == IF e.total >= 64 /\ (e.differ = 0 \/ e.differ = e.total) THEN "PairsIndependent" ELSE "ok"
Verdict(e) ==
  LET m == MapOf(e) IN
  IF e.fn = "pairs" THEN PairsVerdict(e)
  ELSE IF e.err # "" THEN "Raised"
  ELSE IF Len(e.out) # Len(e.ops) \/ \E i \in DOMAIN e.ops : Len(e.out[i]) # Slots(e.ops[i]) THEN "ShapeOK"
  ELSE IF \E i \in DOMAIN e.ops : \E j \in DOMAIN e.out[i] :
            e.out[i][j] \notin (IF GateAt(e.ops[i], j) \in GatesOf(e) THEN Allowed(m, e.ops[i].rk, GateAt(e.ops[i], j)) ELSE {"NoNoise"})
       THEN "SupportOK"
  ELSE IF e.out2 # e.out THEN "SeedDeterministic"
  ELSE "ok"
Init == tid \in 1..Len(Traces) /\ l = 1 /\ why = "ok"
Next == /\ why = "ok" /\ l <= Len(Events(tid))
        /\ why' = Verdict(Events(tid)[l])
        /\ l' = l + 1 /\ tid' = tid
TraceSpec == Init /\ [][Next]_vars
Report ==
  /\ (why # "ok") => PrintT(<<"REJECT", Traces[tid].tid, l - 1, why, Events(tid)[l - 1].cls>>)
  /\ (why = "ok" /\ l = Len(Events(tid)) + 1) => PrintT(<<"DONE", Traces[tid].tid>>)
=============================================================================
