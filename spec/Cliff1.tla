------------------------------- MODULE Cliff1 -------------------------------
(***************************************************************************)
(* The single-qubit Clifford group modulo phase, as signed-axis maps: an   *)
(* element is the pair <<U X U^dagger, U Z U^dagger>> of signed one-qubit  *)
(* Paulis.  A gate LIST denotes the matrix product of the list, so the     *)
(* last listed gate acts first.                                            *)
(***************************************************************************)
EXTENDS Pauli, TLC

X1 == SP(0, <<1>>)
Z1 == SP(0, <<2>>)
Elem(x, z) == <<x, z>>
IdElem == Elem(X1, Z1)
GName(kind) ==
  CASE kind = "Identity" -> "I" [] kind = "Hadamard" -> "H" [] kind = "Phase" -> "P"
    [] kind = "PhaseDagger" -> "PD" [] kind = "SigmaX" -> "X" [] kind = "SigmaY" -> "Y" [] kind = "SigmaZ" -> "Z"
\* conjugate a one-qubit signed Pauli by the matrix product of the listed gates: apply the LAST listed first
RECURSIVE ConjList(_, _, _)
ConjList(word, k, g) == IF k = 0 THEN g ELSE ConjList(word, k - 1, Apply1(GName(word[k]), g, 1))
ElemOfList(word) == Elem(ConjList(word, Len(word), X1), ConjList(word, Len(word), Z1))
\* apply an element to a signed Pauli (images of X and Z determine the image of Y = i X Z)
ApplyElem(e, g) ==
  LET a == g.p[1] IN
  CASE a = 0 -> g
    [] a = 1 -> SP((g.s + e[1].s) % 2, e[1].p)
    [] a = 2 -> SP((g.s + e[2].s) % 2, e[2].p)
    [] a = 3 -> \* Y = i X Z  ->  i (UXU')(UZU')
         LET k == (1 + MulK(e[1].p, e[2].p)) % 4 IN
         SP((g.s + e[1].s + e[2].s + (k \div 2)) % 2, MulP(e[1].p, e[2].p))
\* composition: (a o b) = "a after b"
Compose(a, b) == Elem(ApplyElem(a, b[1]), ApplyElem(a, b[2]))
ValidElem(e) ==
  /\ e[1].p[1] \in 1..3 /\ e[2].p[1] \in 1..3 /\ e[1].p[1] # e[2].p[1]
=============================================================================
