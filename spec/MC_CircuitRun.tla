--------------------------- MODULE MC_CircuitRun ---------------------------
(***************************************************************************)
(* Role M + G for C01: ALL programs of at most MaxLen operations over the  *)
(* full operation alphabet on NE emitters, NP photons, NC classical        *)
(* registers are built (phase "build", one AddOp per operation, exactly   *)
(* what CircuitDAG.add does to the wires) and then executed in EVERY order *)
(* consistent with the wires and with EVERY measurement outcome (phase     *)
(* "run").  Invariants: states stay valid, execution is confluent (the     *)
(* final state and classical record depend only on the outcomes, not on    *)
(* the linearisation), a measure-and-reset leaves its control in |0>.      *)
(* Each program is printed once (role G input).                            *)
(***************************************************************************)
EXTENDS CircuitRun, TLC, Json
CONSTANTS NE, NP, NC, MaxLen

NQb == NE + NP
Qs == 1..NQb
Cs == 1..NC
Words == {<<"Hadamard", "Phase">>, <<"Phase", "SigmaX">>, <<"SigmaZ", "Hadamard", "Phase">>}

Op(kind, q, c, gates) == [kind |-> kind, q |-> q, c |-> c, gates |-> gates]
Alphabet ==
  {Op(k, <<a>>, 0, <<k>>) : k \in OneQubitKinds, a \in Qs}
  \cup {Op(k, <<a, b>>, 0, <<k>>) : k \in TwoQubitKinds, a \in Qs, b \in Qs}
  \cup {Op("MeasurementZ", <<a>>, c, <<"MeasurementZ">>) : a \in Qs, c \in Cs}
  \cup {Op(k, <<a, b>>, c, <<k>>) : k \in {"ClassicalCNOT", "ClassicalCZ", "MeasurementCNOTandReset"},
                                     a \in Qs, b \in Qs, c \in Cs}
  \cup {Op("OneQubitGateWrapper", <<a>>, 0, w) : w \in Words, a \in Qs}
WellFormed(op) == Len(op.q) = 2 => op.q[1] # op.q[2]

VARIABLES phase, program, prog, ens, creg, outs
vars == <<phase, program, prog, ens, creg, outs>>

\* the wires CircuitDAG.add produces: every register's operations in program order
WireName(t, i) == t \o ToString(i)
QWire(a) == IF a <= NP THEN WireName("p", a - 1) ELSE WireName("e", a - NP - 1)
Touches(op, w) == (\E k \in DOMAIN op.q : QWire(op.q[k]) = w) \/ (op.c # 0 /\ WireName("c", op.c - 1) = w)
AllWires == {QWire(a) : a \in Qs} \cup {WireName("c", c - 1) : c \in Cs}
WireSeq(p, w) == SelectSeq([k \in DOMAIN p |-> k], LAMBDA k : Touches(p[k], w))
CircOf(p) == [nq |-> NQb, nc |-> NC, ops |-> p, wires |-> [w \in AllWires |-> WireSeq(p, w)]]
Circ == CircOf(program)

Init == /\ phase = "build" /\ program = <<>> /\ prog = <<>> /\ outs = <<>>
        /\ ens = Pure(ZeroGroup(NQb)) /\ creg = [c \in Cs |-> 0]

AddOp(op) == /\ phase = "build" /\ Len(program) < MaxLen /\ WellFormed(op)
              /\ program' = Append(program, op)
              /\ UNCHANGED <<phase, prog, ens, creg, outs>>
Start == /\ phase = "build" /\ Len(program) >= 1
         /\ phase' = "run"
         /\ prog' = [k \in DOMAIN program |-> 0]
         /\ outs' = [k \in DOMAIN program |-> 2]          \* 2 = no outcome (yet)
         /\ UNCHANGED <<program, ens, creg>>

\* one elementary step of operation id (for measuring kinds with outcome m; any probabilistic outcome)
Exec(id, m) ==
  /\ phase = "run"
  /\ CanProgress(Circ, prog, id)
  /\ LET op == program[id] kind == ExecGate(op, prog[id] + 1) IN
       IF kind \in MeasuringKinds
       THEN /\ m \in Outcomes(ens, op.q, 2)
            /\ ens' = ApplyMeasuring(ens, kind, op.q, m)
            /\ creg' = SetCreg(creg, op.c, m)
            /\ outs' = [outs EXCEPT ![id] = m]
       ELSE /\ m = 0
            /\ ens' = ApplyUnitary(ens, kind, op.q)
            /\ UNCHANGED <<creg, outs>>
  /\ prog' = [prog EXCEPT ![id] = @ + 1]
  /\ UNCHANGED <<phase, program>>

Next == \/ \E op \in Alphabet : AddOp(op)
        \/ Start
        \/ \E id \in DOMAIN program, m \in 0..1 : Exec(id, m)
Spec == Init /\ [][Next]_vars

TypeOK == phase \in {"build", "run"} /\ Len(program) <= MaxLen

ValidStates ==
  /\ Cardinality(ens) = 1
  /\ \A b \in ens : b.w = ROne /\ IsStabGroup(b.g, NQb)

\* sequential reference run in PROGRAM order with the recorded outcomes
RECURSIVE SeqGates(_, _, _, _)
SeqGates(E, op, k, m) ==      \* apply the elementary gates k..NGates of op
  IF k > NGates(op) THEN E
  ELSE LET kind == ExecGate(op, k) IN
       SeqGates(IF kind \in MeasuringKinds THEN ApplyMeasuring(E, kind, op.q, m) ELSE ApplyUnitary(E, kind, op.q),
                op, k + 1, m)
RECURSIVE SeqRun(_, _, _)
SeqRun(E, cr, k) ==
  IF k > Len(program) THEN <<E, cr>>
  ELSE LET op == program[k] IN
       SeqRun(SeqGates(E, op, 1, outs[k]), IF op.c # 0 THEN SetCreg(cr, op.c, outs[k]) ELSE cr, k + 1)

Confluent ==
  (phase = "run" /\ AllDone(Circ, prog)) =>
     <<ens, creg>> = SeqRun(Pure(ZeroGroup(NQb)), [c \in Cs |-> 0], 1)

\* a finished measure-and-reset whose control wire has not moved on leaves the control in |0>
ResetLeavesZero ==
  phase = "run" =>
    \A id \in DOMAIN program :
      (/\ program[id].kind = "MeasurementCNOTandReset" /\ Finished(Circ, prog, id)
       /\ \A j \in DOMAIN program :
            (j # id /\ OnWire(Circ, QWire(program[id].q[1]), j)
               /\ PosOn(Circ, QWire(program[id].q[1]), j) > PosOn(Circ, QWire(program[id].q[1]), id))
            => prog[j] = 0)
      => \A b \in ens : SP(0, ZAt(NQb, program[id].q[1])) \in b.g

DumpProgram ==
  (phase = "run" /\ \A k \in DOMAIN prog : prog[k] = 0) => PrintT(<<"PROG", ToJson(program)>>)
=============================================================================
