--------------------------- MODULE GraphFamilies ---------------------------
(***************************************************************************)
(* Extension X01: the named graph families of graphiq/benchmarks/          *)
(* graph_states.py, written as edge sets over vertices 1..N in the         *)
(* documented emission order (column by column, level by level, leaf then  *)
(* inner qubit).  A family is a record [n |-> number of vertices,          *)
(* e |-> set of two-element vertex sets].                                  *)
(***************************************************************************)
EXTENDS Naturals, Sequences, FiniteSets

RECURSIVE SumTo(_, _)
SumTo(s, k) == IF k = 0 THEN 0 ELSE s[k] + SumTo(s, k - 1)          \* s[1] + .. + s[k]
RECURSIVE ProdTo(_, _)
ProdTo(s, k) == IF k = 0 THEN 1 ELSE s[k] * ProdTo(s, k - 1)

Fam(n, e) == [n |-> n, e |-> e]

Path(n) == Fam(n, {{i, i + 1} : i \in 1..(n - 1)})
\* nx.star_graph(k): centre first, k leaves
Star(k) == Fam(k + 1, {{1, j} : j \in 2..(k + 1)})
\* repeater graph: leaf 2i-1 attached to inner vertex 2i; the inner vertices form a clique
Repeater(m) == Fam(2 * m, {{2 * i - 1, 2 * i} : i \in 1..m} \cup ({{2 * i, 2 * j} : i, j \in 1..m} \ {{2 * i} : i \in 1..m}))
\* biclique repeater: blocks of 4 (leaf, inner-left, leaf, inner-right); inner-left x inner-right complete bipartite
BiRepeater(m) ==
  Fam(4 * m, {{4 * i - 3, 4 * i - 2} : i \in 1..m} \cup {{4 * i - 1, 4 * i} : i \in 1..m}
             \cup {{4 * i - 2, 4 * j} : i, j \in 1..m})
\* crazy graph: columns of sizes cols[1..], consecutive columns completely connected
ColOf(cols, v) == CHOOSE c \in DOMAIN cols : SumTo(cols, c - 1) < v /\ v <= SumTo(cols, c)
Crazy(cols) ==
  LET n == SumTo(cols, Len(cols)) IN
  Fam(n, {{q[1], q[2]} : q \in {p \in (1..n) \X (1..n) : ColOf(cols, p[2]) = ColOf(cols, p[1]) + 1}})
\* 2D cluster, column by column: vertex (column c, row r) = (c - 1) * rows + r
TwoD(rows, cols) ==
  LET idx(c, r) == (c - 1) * rows + r IN
  Fam(rows * cols,
      {{idx(c, r), idx(c, r + 1)} : c \in 1..cols, r \in 1..(rows - 1)} \cup
      {{idx(c, r), idx(c + 1, r)} : c \in 1..(cols - 1), r \in 1..rows})
ThreeD(rows, cols, depth) ==
  LET idx(z, c, r) == (z - 1) * rows * cols + (c - 1) * rows + r IN
  Fam(rows * cols * depth,
      {{idx(z, c, r), idx(z, c, r + 1)} : z \in 1..depth, c \in 1..cols, r \in 1..(rows - 1)} \cup
      {{idx(z, c, r), idx(z, c + 1, r)} : z \in 1..depth, c \in 1..(cols - 1), r \in 1..rows} \cup
      {{idx(z, c, r), idx(z + 1, c, r)} : z \in 1..(depth - 1), c \in 1..cols, r \in 1..rows})
\* branching tree, breadth first: level 0 is the root; level l has ProdTo(b, l) vertices; the j-th vertex (0-based) of
\* level l hangs under the (j \div b[l])-th vertex of level l - 1
LevelSize(b, l) == ProdTo(b, l)
RECURSIVE LevelStart(_, _)
LevelStart(b, l) == IF l = 0 THEN 1 ELSE LevelStart(b, l - 1) + LevelSize(b, l - 1)      \* first vertex of level l
Tree(b) ==
  LET L == Len(b) n == LevelStart(b, L) + LevelSize(b, L) - 1 IN
  Fam(n, UNION {{{LevelStart(b, l) + j, LevelStart(b, l - 1) + (j \div b[l])} : j \in 0..(LevelSize(b, l) - 1)} : l \in 1..L})
=============================================================================
