--------------------------- MODULE MC_CircuitDag ---------------------------
(***************************************************************************)
(* Role M for C12 / C04: the wire machine.  State = per-register wires of  *)
(* operation ids + the operation table.  Actions are the edits of the      *)
(* CircuitDAG API: append, insert a one-qubit operation at any edge,       *)
(* insert a two-qubit operation at any edge pair THE COMPATIBILITY RULE    *)
(* ALLOWS, remove.  All histories up to Depth steps with at most MaxOps    *)
(* live operations are explored.  Invariants: the union of the wire        *)
(* orders stays acyclic (so the rule is sound), every operation sits on    *)
(* exactly the wires of its registers.                                     *)
(* The compatibility rule is the one the implementation documents:         *)
(* edge pair (e1, e2) is incompatible iff e2 starts at-or-after the end of *)
(* e1 or ends at-or-before the start of e1 in the partial order.           *)
(***************************************************************************)
EXTENDS Naturals, Sequences, FiniteSets, TLC
CONSTANTS Regs, MaxOps, Depth
VARIABLES wire, op, nextId, steps
vars == <<wire, op, nextId, steps>>

Init == wire = [r \in Regs |-> <<>>] /\ op = <<>> /\ nextId = 1 /\ steps = 0
Live == UNION {{wire[r][i] : i \in DOMAIN wire[r]} : r \in Regs}
InsertSeq(s, i, x) == SubSeq(s, 1, i - 1) \o <<x>> \o SubSeq(s, i, Len(s))
RemoveFrom(s, x) == SelectSeq(s, LAMBDA y : y # x)

Before(a, b) == \E r \in Regs : \E i, j \in DOMAIN wire[r] : i < j /\ wire[r][i] = a /\ wire[r][j] = b
RECURSIVE Reach(_, _)
Reach(S, k) == IF k = 0 THEN S ELSE Reach(S \cup {b \in Live : \E a \in S : Before(a, b)}, k - 1)
Desc(a) == Reach({a}, Cardinality(Live)) \ {a}
AcyclicInv == \A a \in Live : ~(\E b \in Desc(a) : Before(b, a)) /\ ~Before(a, a)

\* position i on wire r = the edge between element i-1 and element i (1..Len+1); 0 = the register's input / output
PredOf(r, i) == IF i = 1 THEN 0 ELSE wire[r][i - 1]
SuccOf(r, i) == IF i > Len(wire[r]) THEN 0 ELSE wire[r][i]
Leq(a, b) == a # 0 /\ b # 0 /\ (a = b \/ b \in Desc(a))
\* inserting a node on both edges adds paths Pred1 -> n -> Succ2 and Pred2 -> n -> Succ1
Compat(r1, i, r2, j) == ~Leq(SuccOf(r2, j), PredOf(r1, i)) /\ ~Leq(SuccOf(r1, i), PredOf(r2, j))

Append1(r) == /\ Cardinality(Live) < MaxOps
              /\ wire' = [wire EXCEPT ![r] = Append(@, nextId)]
              /\ op' = Append(op, <<r>>) /\ nextId' = nextId + 1
Append2(r1, r2) == /\ r1 # r2 /\ Cardinality(Live) < MaxOps
                   /\ wire' = [wire EXCEPT ![r1] = Append(@, nextId), ![r2] = Append(@, nextId)]
                   /\ op' = Append(op, <<r1, r2>>) /\ nextId' = nextId + 1
Insert1(r, i) == /\ Cardinality(Live) < MaxOps
                 /\ wire' = [wire EXCEPT ![r] = InsertSeq(@, i, nextId)]
                 /\ op' = Append(op, <<r>>) /\ nextId' = nextId + 1
Insert2(r1, i, r2, j) == /\ r1 # r2 /\ Cardinality(Live) < MaxOps /\ Compat(r1, i, r2, j)
                         /\ wire' = [wire EXCEPT ![r1] = InsertSeq(@, i, nextId), ![r2] = InsertSeq(@, j, nextId)]
                         /\ op' = Append(op, <<r1, r2>>) /\ nextId' = nextId + 1
Remove(a) == /\ wire' = [r \in Regs |-> RemoveFrom(wire[r], a)] /\ UNCHANGED <<op, nextId>>
Next == /\ steps' = steps + 1
        /\ \/ \E r \in Regs : Append1(r)
           \/ \E r1, r2 \in Regs : Append2(r1, r2)
           \/ \E r \in Regs : \E i \in 1..(Len(wire[r]) + 1) : Insert1(r, i)
           \/ \E r1, r2 \in Regs : \E i \in 1..(Len(wire[r1]) + 1), j \in 1..(Len(wire[r2]) + 1) : Insert2(r1, i, r2, j)
           \/ \E a \in Live : Remove(a)
Spec == Init /\ [][Next]_vars
Bound == steps <= Depth

WiresConsistent ==
  \A a \in Live : \A r \in Regs :
     (\E i \in DOMAIN wire[r] : wire[r][i] = a) <=> (\E k \in DOMAIN op[a] : op[a][k] = r)
=============================================================================
