---------------------------- MODULE MC_MetricLog ----------------------------
(***************************************************************************)
(* Role M for X09: every sequence of at most MaxLen evaluations with       *)
(* values 0..2 for log_steps K in 1..3: LogShapeInv (the log holds one     *)
(* entry per K evaluations), LogIsSubsequence (the log is the sequence of  *)
(* the K-th, 2K-th, ... values), AppendOnly.                               *)
(***************************************************************************)
EXTENDS MetricLog, SequencesExt, TLC
CONSTANTS MaxLen
VARIABLES k, m, vals
vars == <<k, m, vals>>
Init == k \in 1..3 /\ m = Fresh /\ vals = <<>>
Next == /\ Len(vals) < MaxLen
        /\ \E v \in 0..2 : m' = Eval(m, k, v) /\ vals' = Append(vals, v)
        /\ k' = k
Spec == Init /\ [][Next]_vars
LogShapeInv == LogShape(m, k) /\ m.inc = Len(vals)
LogIsSubsequence == m.log = [i \in 1..(Len(vals) \div k) |-> vals[i * k]]
AppendOnly == [][IsPrefix(m.log, m'.log)]_vars
=============================================================================
