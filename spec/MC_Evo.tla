------------------------------- MODULE MC_Evo -------------------------------
(***************************************************************************)
(* Role M for C19: the generation loop of the random-search solvers over a *)
(* heap of circuit OBJECTS.  A circuit object has an identity (oid) and a  *)
(* content (an abstract value with a score and a size); mutation changes   *)
(* the content of the population's objects IN PLACE, so whether the hall   *)
(* of fame holds copies or references matters.                             *)
(*   CopyOnInsert = TRUE  : update_hof inserts copies (as implemented)     *)
(*   CopyOnInsert = FALSE : the variant that stores the population's own   *)
(*                          objects - kept to show that HofHonest fails.   *)
(* Insertion rule of update_hof: scan the hall of fame; on an equal score  *)
(* insert before the entry only if the circuit is smaller, on a strictly   *)
(* better score insert before the entry; drop the last entry.              *)
(***************************************************************************)
EXTENDS Naturals, Sequences, FiniteSets, TLC
CONSTANTS NPop, NHof, NGen, Values, CopyOnInsert
\* a value v has Score(v) and Size(v); smaller score is better
Score(v) == v[1]
Size(v) == v[2]
Inf == 99
DefaultValues == {<<0, 1>>, <<0, 2>>, <<1, 1>>, <<2, 1>>}
VARIABLES content, pop, hof, gen, phase, nextOid, best
vars == <<content, pop, hof, gen, phase, nextOid, best>>
\* pop, hof : sequences of [score, oid]; oid 0 = the empty slot (None) with score Inf

Init ==
  /\ \E v \in Values : content = [o \in 1..NPop |-> v]
  /\ pop = [j \in 1..NPop |-> [score |-> Inf, oid |-> j]]
  /\ hof = [i \in 1..NHof |-> [score |-> Inf, oid |-> 0]]
  /\ gen = 0 /\ phase = "mutate" /\ nextOid = NPop + 1 /\ best = Inf

\* mutate and evaluate every member: contents change in place, scores are re-evaluated
MutateAll ==
  /\ phase = "mutate" /\ gen < NGen
  /\ \E f \in [1..NPop -> Values] :
       /\ content' = [o \in DOMAIN content |->
                        IF \E j \in 1..NPop : pop[j].oid = o THEN f[CHOOSE j \in 1..NPop : pop[j].oid = o] ELSE content[o]]
       /\ pop' = [j \in 1..NPop |-> [score |-> Score(f[j]), oid |-> pop[j].oid]]
  /\ phase' = "hof" /\ UNCHANGED <<hof, gen, nextOid, best>>

InsertAt(s, i, x) == SubSeq(s, 1, i - 1) \o <<x>> \o SubSeq(s, i, Len(s) - 1)      \* insert and drop the last
\* process population member j against the hall of fame h with heap c and next id n: <<h', c', n'>>
RECURSIVE Scan(_, _, _, _, _)
Scan(h, c, n, j, i) ==
  IF i > NHof THEN <<h, c, n>>
  ELSE LET sc == pop[j].score IN
    IF sc = h[i].score THEN
       (IF h[i].oid # 0 /\ Size(c[pop[j].oid]) < Size(c[h[i].oid])
        THEN (IF CopyOnInsert
              THEN <<InsertAt(h, i, [score |-> sc, oid |-> n]), [o \in (DOMAIN c) \cup {n} |-> IF o = n THEN c[pop[j].oid] ELSE c[o]], n + 1>>
              ELSE <<InsertAt(h, i, [score |-> sc, oid |-> pop[j].oid]), c, n>>)
        ELSE Scan(h, c, n, j, i + 1))
    ELSE IF sc < h[i].score THEN
       (IF CopyOnInsert
        THEN <<InsertAt(h, i, [score |-> sc, oid |-> n]), [o \in (DOMAIN c) \cup {n} |-> IF o = n THEN c[pop[j].oid] ELSE c[o]], n + 1>>
        ELSE <<InsertAt(h, i, [score |-> sc, oid |-> pop[j].oid]), c, n>>)
    ELSE Scan(h, c, n, j, i + 1)
RECURSIVE UpdateFrom(_, _, _, _)
UpdateFrom(h, c, n, j) ==
  IF j > NPop THEN <<h, c, n>>
  ELSE LET r == Scan(h, c, n, j, 1) IN UpdateFrom(r[1], r[2], r[3], j + 1)

UpdateHof ==
  /\ phase = "hof"
  /\ LET r == UpdateFrom(hof, content, nextOid, 1) IN
       hof' = r[1] /\ content' = r[2] /\ nextOid' = r[3] /\ best' = r[1][1].score
  /\ phase' = "select" /\ UNCHANGED <<pop, gen>>

\* tournament selection (deep copies of chosen members) or no selection
Select ==
  /\ phase = "select"
  /\ \/ UNCHANGED <<pop, content, nextOid>>
     \/ \E pick \in [1..NPop -> 1..NPop] :
          /\ pop' = [j \in 1..NPop |-> [score |-> pop[pick[j]].score, oid |-> nextOid + j - 1]]
          /\ content' = [o \in (DOMAIN content) \cup (nextOid..(nextOid + NPop - 1)) |->
                           IF o \in DOMAIN content THEN content[o] ELSE content[pop[pick[o - nextOid + 1]].oid]]
          /\ nextOid' = nextOid + NPop
  /\ gen' = gen + 1 /\ phase' = "mutate" /\ UNCHANGED <<hof, best>>

Next == MutateAll \/ UpdateHof \/ Select
Spec == Init /\ [][Next]_vars

HofSorted == \A i \in 1..(NHof - 1) : hof[i].score <= hof[i + 1].score
HofHonest == \A i \in 1..NHof : hof[i].oid # 0 => hof[i].score = Score(content[hof[i].oid])
HofPrivate == \A i \in 1..NHof : \A j \in 1..NPop : hof[i].oid # 0 => hof[i].oid # pop[j].oid
BestMonotone == [][hof'[1].score <= hof[1].score]_vars
\* exploration is bounded by NGen (MutateAll is disabled afterwards)
=============================================================================
