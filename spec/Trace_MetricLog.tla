--------------------------- MODULE Trace_MetricLog ---------------------------
(***************************************************************************)
(* Role J for X09: a history of evaluate() calls on ONE real metric object *)
(* (a plain circuit metric, or the composite Metrics over several members  *)
(* with integer weights).  Per call: the value returned, the members'      *)
(* values (composite), and afterwards the object's log and every member's  *)
(* log.  ValueOK (composite = weighted sum of the members' values), LogOK  *)
(* (own log), MemberLogOK (each member's log).                             *)
(***************************************************************************)
EXTENDS MetricLog, TLC, Json, IOUtils
Traces == JsonDeserialize(IOEnv.TRACE_FILE)
VARIABLES tid, l, why, own, members
vars == <<tid, l, why, own, members>>
Events(t) == Traces[t].events
T == Traces[tid]
Init == /\ tid \in 1..Len(Traces) /\ l = 1 /\ why = "ok" /\ own = Fresh
        /\ members = [i \in DOMAIN Traces[tid].member_steps |-> Fresh]
Next ==
  /\ why = "ok" /\ l <= Len(Events(tid))
  /\ LET e == Events(tid)[l]
         own2 == Eval(own, T.log_steps, e.v)
         mem2 == [i \in DOMAIN members |-> Eval(members[i], T.member_steps[i], e.mv[i])] IN
       /\ own' = own2 /\ members' = mem2
       /\ why' = IF e.err # "" THEN "Raised"
                 ELSE IF T.composite /\ e.v # Dot(T.weights, e.mv) THEN "ValueOK"
                 ELSE IF e.log # own2.log THEN "LogOK"
                 ELSE IF \E i \in DOMAIN members : e.mlog[i] # mem2[i].log THEN "MemberLogOK"
                 ELSE "ok"
  /\ l' = l + 1 /\ tid' = tid
TraceSpec == Init /\ [][Next]_vars
Report ==
  /\ (why # "ok") => PrintT(<<"REJECT", Traces[tid].tid, l - 1, why, Traces[tid].cls>>)
  /\ (why = "ok" /\ l = Len(Events(tid)) + 1) => PrintT(<<"DONE", Traces[tid].tid>>)
=============================================================================
