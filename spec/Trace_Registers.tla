--------------------------- MODULE Trace_Registers ---------------------------
(***************************************************************************)
(* Role J for X03: a history of calls on one real Register object (and on  *)
(* a CircuitDAG's register interface), each event with the error raised,   *)
(* the value returned and the table afterwards: ErrorOK, ReturnOK,         *)
(* TableOK, QuantumCountOK.                                                *)
(***************************************************************************)
EXTENDS Registers, TLC, Json, IOUtils
Traces == JsonDeserialize(IOEnv.TRACE_FILE)
VARIABLES tid, l, why, s
vars == <<tid, l, why, s>>
Events(t) == Traces[t].events
Step(st, e) ==
  CASE e.a = "add" -> AddRegister(st, e.t, e.size)
    [] e.a = "expand" -> ExpandRegister(st, e.t, e.k, e.size)
    [] e.a = "next" -> NextRegister(st, e.t, e.k)
Init == /\ tid \in 1..Len(Traces) /\ l = 1 /\ why = "ok"
        /\ s = RS(Traces[tid].init.e, Traces[tid].init.p, Traces[tid].init.c, Traces[tid].multi)
Next ==
  /\ why = "ok" /\ l <= Len(Events(tid))
  /\ LET e == Events(tid)[l] r == Step(s, e) IN
       /\ s' = r[1]
       /\ why' = IF e.err # r[2] THEN "ErrorOK"
                 ELSE IF e.err = "" /\ e.a \in {"next"} \cup (IF Traces[tid].returns_index THEN {"add"} ELSE {}) /\ e.ret # r[3] THEN "ReturnOK"
                 ELSE IF e.obs.e # r[1].e \/ e.obs.p # r[1].p \/ e.obs.c # r[1].c THEN "TableOK"
                 ELSE IF e.obs.nq # NQuantum(r[1]) THEN "QuantumCountOK"
                 ELSE "ok"
  /\ l' = l + 1 /\ tid' = tid
TraceSpec == Init /\ [][Next]_vars
Report ==
  /\ (why # "ok") => PrintT(<<"REJECT", Traces[tid].tid, l - 1, why, Events(tid)[l - 1].a>>)
  /\ (why = "ok" /\ l = Len(Events(tid)) + 1) => PrintT(<<"DONE", Traces[tid].tid>>)
=============================================================================
