------------------------------ MODULE Trace_Lib ------------------------------
(***************************************************************************)
(* C13: API-call histories over a heap of objects (circuits, states).      *)
(* After every call the harness logs the BEHAVIOUR of every live object:   *)
(*   circuit : [t |-> "circ", circ |-> circuit record whose ops carry a    *)
(*              noise descriptor, qasm |-> text, fin |-> T observation of  *)
(*              compiling a deep copy with forced outcomes (noise off)]    *)
(*   state   : [t |-> "state", obs |-> T observation]                      *)
(* Each call has a declared write set.  Clauses:                           *)
(*   FrameOK     objects outside the write set keep their behaviour        *)
(*               (the action property NoInterference of the design)       *)
(*   RewriteOK   copy / unwrap / group / remove_identity / empty noise map *)
(*               leave the compiled state unchanged                        *)
(*   DeterministicCompile  compiling the same circuit twice gives the same *)
(*               state;  CompileMatches: it equals the circuit's behaviour *)
(*   NoisyCopyOK a noisy copy has the same operations as its original      *)
(***************************************************************************)
EXTENDS Tableau, TLC, Json, IOUtils
Traces == JsonDeserialize(IOEnv.TRACE_FILE)
VARIABLES tid, l, why, cause, heap
vars == <<tid, l, why, cause, heap>>
Events(t) == Traces[t].events

FinGroup(b) == IF b.fin.err # "" THEN {} ELSE TGroup(b.fin)
FinOK(b) == b.fin.err = "" /\ TClause(b.fin) = "ok"
SameBehaviour(a, b) ==
  IF a.t # b.t THEN FALSE
  ELSE IF a.t = "circ" THEN
         /\ a.circ = b.circ /\ a.qasm = b.qasm
         /\ a.fin.err = b.fin.err
         /\ (a.fin.err = "" => FinGroup(a) = FinGroup(b))
  ELSE a.obs.err = b.obs.err /\ (a.obs.err = "" => TGroup(a.obs) = TGroup(b.obs))
\* the operations of a circuit without their noise descriptors
StripNoise(c) == [c EXCEPT !.ops = [k \in DOMAIN c.ops |-> [kind |-> c.ops[k].kind, q |-> c.ops[k].q, c |-> c.ops[k].c,
                                                              gates |-> c.ops[k].gates]]]
\* per-wire sequences of operation contents (independent of node numbering)
OpCont(o) == [kind |-> o.kind, q |-> o.q, c |-> o.c, gates |-> o.gates]
\* (quantum wires only: operations placed with insert_at are not threaded on classical wires, those placed with add are)
QuantumWires(c) == {"p" \o ToString(i) : i \in 0..(c.np - 1)} \cup {"e" \o ToString(i) : i \in 0..(c.ne - 1)}
WireContents(c) == [w \in QuantumWires(c) |-> [k \in DOMAIN c.wires[w] |-> OpCont(c.ops[c.wires[w][k]])]]
WriteSet(e) == IF e.ev \in {"unwrap", "group", "rm_identity"} THEN {e.args[1]}
               ELSE IF e.ev = "forget" THEN {e.args[k] : k \in DOMAIN e.args}      \* a dropped reference, not a call
               ELSE {}
Rewrites == {"copy", "unwrap", "group", "rm_identity", "assign_noise_empty"}

Verdict(pre, e) ==
  LET post == e.objs IN
  IF e.err # "" THEN <<"Raised", e.ev>>
  ELSE IF \E o \in DOMAIN pre : o \notin WriteSet(e) /\ (o \notin DOMAIN post \/ ~SameBehaviour(pre[o], post[o]))
       THEN <<"FrameOK", e.ev>>
  ELSE IF e.ev \in Rewrites THEN
       LET src == pre[e.args[1]]
           dst == IF e.ev \in {"copy", "assign_noise_empty"} THEN post[e.ret] ELSE post[e.args[1]] IN
       IF ~FinOK(src) THEN <<"HarnessSourceDoesNotCompile", e.ev>>
       ELSE IF ~FinOK(dst) \/ FinGroup(dst) # FinGroup(src) THEN <<"RewriteOK", e.ev>>
       ELSE IF e.ev = "copy" /\ ~SameBehaviour(src, dst) THEN <<"CopyEqualsOriginal", e.ev>>
       ELSE <<"ok", "">>
  ELSE IF e.ev \in {"assign_noise", "mc_assign_noise"} THEN
       IF WireContents(post[e.ret].circ) # WireContents(pre[e.args[1]].circ) THEN <<"NoisyCopyOK", e.ev>> ELSE <<"ok", "">>
  ELSE IF e.ev = "compile" THEN
       LET c == pre[e.args[1]] s == post[e.ret] IN
       IF s.obs.err # "" \/ TClause(s.obs) # "ok" THEN <<"CompileValid", e.ev>>
       ELSE IF e.forced /\ FinOK(c) /\ TGroup(s.obs) # FinGroup(c) THEN <<"DeterministicCompile", e.ev>>
       ELSE <<"ok", "">>
  ELSE <<"ok", "">>

Init == /\ tid \in 1..Len(Traces) /\ l = 1 /\ why = "ok" /\ cause = "" /\ heap = Traces[tid].init
Next == /\ why = "ok" /\ l <= Len(Events(tid))
        /\ LET e == Events(tid)[l] v == Verdict(heap, e) IN
             /\ why' = v[1] /\ cause' = v[2]
             /\ heap' = IF e.err = "" THEN e.objs ELSE heap
        /\ l' = l + 1 /\ tid' = tid
TraceSpec == Init /\ [][Next]_vars
Report ==
  /\ (why # "ok") => PrintT(<<"REJECT", Traces[tid].tid, l - 1, why, cause>>)
  /\ (why = "ok" /\ l = Len(Events(tid)) + 1) => PrintT(<<"DONE", Traces[tid].tid>>)
=============================================================================
