---------------------------- MODULE MC_NoiseMap ----------------------------
(***************************************************************************)
(* Role M / G for X06: every call history of length <= MaxLen on an empty  *)
(* noise map over two register kinds (and an unknown one), two gates, two  *)
(* noise ids and the probabilities Probs (eighths; 12 = 1.5 included):     *)
(* SumBoundInv in every state, FailedCallsChangeNothing as action          *)
(* property.  Dump prints every complete history for replay into the code. *)
(***************************************************************************)
EXTENDS NoiseMap, TLC, Json
CONSTANTS MaxLen, Gates, Probs
VARIABLES m, hist
vars == <<m, hist>>
KindsTried == {"e", "ep", "pp"}
Tuples == {Tuple(id, p, f) : id \in {"X", "Z"}, p \in Probs, f \in BOOLEAN}
Lists == {<<>>} \cup {<<t>> : t \in Tuples} \cup {<<t, u>> : t \in {x \in Tuples : x.f}, u \in {x \in Tuples : x.id = "Z"}}
Init == m = EmptyMap(Gates) /\ hist = <<>>
Call(a, k, g, ts, r) ==
  /\ m' = r[1]
  /\ hist' = Append(hist, [a |-> a, k |-> k, g |-> g, ts |-> ts, err |-> r[2]])
Next ==
  /\ Len(hist) < MaxLen
  /\ \E k \in KindsTried, g \in Gates :
       \/ \E t \in Tuples : Call("add_tuple", k, g, <<t>>, AddTuple(m, k, g, t))
       \/ \E ts \in Lists : Call("add_gate", k, g, ts, AddGate(m, k, g, ts))
Spec == Init /\ [][Next]_vars
SumBoundInv == SumBound(m)
FailedCallsChangeNothing == [][(hist' # hist /\ hist'[Len(hist')].a = "add_tuple" /\ hist'[Len(hist')].err # "") => m' = m]_vars
SamplingPossible == \A k \in Kinds, g \in Gates : Allowed(m, k, g) # {}
Dump == (Len(hist) = MaxLen) => PrintT(<<"HIST", ToJson([calls |-> hist])>>)
=============================================================================
