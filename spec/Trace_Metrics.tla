---------------------------- MODULE Trace_Metrics ----------------------------
(***************************************************************************)
(* C18: every metric class evaluated by the real code on a circuit; the    *)
(* value must equal penalty(definition) with the definition computed by    *)
(* the spec from the projected operation list.  Events are independent.    *)
(***************************************************************************)
EXTENDS Metrics, TLC, Json, IOUtils
Traces == JsonDeserialize(IOEnv.TRACE_FILE)
VARIABLES tid, l, why, failed
vars == <<tid, l, why, failed>>
Events(t) == Traces[t].events
Circ(t) == Traces[t].circ

Verdict(t, e) ==
  CASE e.fn = "metric" ->
         IF e.out.err # "" THEN "Raised"
         ELSE IF e.out.v # e.a * MetricValue(Circ(t), e.name) + e.b THEN "MetricOK"
         ELSE "ok"
    [] e.fn = "reg_depth" ->
         IF e.out.err # "" THEN "Raised"
         ELSE IF LET RW == RawWires(Circ(t)) DM == DepthMapOf(RW) IN
                   \E key \in DOMAIN e.out.d : e.out.d[key] # OutDepthIn(RW, DM, key) THEN "RegDepthOK"
         ELSE IF DOMAIN e.out.d # DOMAIN Circ(t).wires THEN "RegDepthKeys"
         ELSE "ok"
    [] e.fn = "unchanged" -> IF e.circ # Circ(t) THEN "InputUnchanged" ELSE "ok"
    [] OTHER -> "HarnessUnknownFn"

Init == tid \in 1..Len(Traces) /\ l = 1 /\ why = "ok" /\ failed = FALSE
Next == /\ l <= Len(Events(tid))
        /\ LET v == Verdict(tid, Events(tid)[l]) IN why' = v /\ failed' = (failed \/ v # "ok")
        /\ l' = l + 1 /\ tid' = tid
TraceSpec == Init /\ [][Next]_vars
Cause == LET e == Events(tid)[l - 1] IN
         IF e.fn = "metric" THEN e.name \o (IF e.default THEN ":default" ELSE ":penalty") ELSE e.fn
Report ==
  /\ (why # "ok") => PrintT(<<"REJECT", Traces[tid].tid, l - 1, why, Cause>>)
  /\ (~failed /\ l = Len(Events(tid)) + 1) => PrintT(<<"DONE", Traces[tid].tid>>)
=============================================================================
