------------------------------ MODULE Trace_Evo ------------------------------
(***************************************************************************)
(* Role J for C19: one trace = one run of a real random-search solver.     *)
(* One event per generation (recorded by wrapping update_logs, which runs  *)
(* right after update_hof): population and hall of fame as                 *)
(*   [score, oid, fp]  /  [score, oid, fp, rescore]                        *)
(* scores in fixed point (x 10^8, Inf = 2 * 10^9), oid = identity of the   *)
(* circuit object, fp = fingerprint of its content, rescore = the metric   *)
(* re-evaluated NOW on the stored circuit by a fresh compiler and metric.  *)
(* A final event carries solver.result, the logged cost_min series and the *)
(* final halls of fame of the twin runs (same seed: again in this process, *)
(* and in fresh interpreters with other hash seeds).                       *)
(***************************************************************************)
EXTENDS Naturals, Integers, Sequences, FiniteSets, TLC, Json, IOUtils
Traces == JsonDeserialize(IOEnv.TRACE_FILE)
VARIABLES tid, l, why, prev
vars == <<tid, l, why, prev>>
Events(t) == Traces[t].events
Inf == 2000000000
Tol(s) == 2 + (s \div 50000)                 \* numpy.isclose: atol 1e-8, rtol 1e-5 (generous by a factor 2)
Close(a, b) == (IF a > b THEN a - b ELSE b - a) <= Tol(IF a > b THEN a ELSE b)
Leq(a, b) == a <= b + Tol(b)
Fps(s) == {s[k].fp : k \in DOMAIN s}

GenClause(pre, e) ==
  LET hof == e.hof pop == e.pop IN
  IF \E i \in 1..(Len(hof) - 1) : ~Leq(hof[i].score, hof[i + 1].score) THEN "HofSorted"
  ELSE IF \E i \in DOMAIN hof : hof[i].oid # 0 /\ ~Close(hof[i].score, hof[i].rescore) THEN "HofHonest"
  ELSE IF pre.has /\ ~Leq(hof[1].score, pre.hof[1].score) THEN "BestMonotone"
  ELSE IF \E i \in DOMAIN hof : hof[i].oid # 0 /\ hof[i].fp \notin (Fps(pop) \cup (IF pre.has THEN Fps(pre.hof) ELSE {}))
       THEN "HofFromKnown"
  ELSE "ok"

\* information, not a verdict: whether the hall of fame holds private copies (no object shared with the population or
\* between entries) is HOW the implementation keeps stored scores honest; the property is HofHonest itself
SharesObjects(e) ==
  \/ \E i \in DOMAIN e.hof : \E j \in DOMAIN e.pop : e.hof[i].oid # 0 /\ e.hof[i].oid = e.pop[j].oid
  \/ \E i, k \in DOMAIN e.hof : i # k /\ e.hof[i].oid # 0 /\ e.hof[i].oid = e.hof[k].oid

FinalClause(pre, e) ==
  IF e.err # "" THEN "Raised"
  ELSE IF ~pre.has THEN "NoGeneration"
  ELSE IF ~Close(e.result.score, pre.hof[1].score) \/ e.result.fp # pre.hof[1].fp THEN "ResultIsBest"
  ELSE IF \E i \in 1..(Len(e.cost_min) - 1) : ~Leq(e.cost_min[i + 1], e.cost_min[i]) THEN "LogsMonotone"
  ELSE IF e.twin # e.final THEN "ReproducibleInProcess"
  ELSE IF \E k \in DOMAIN e.twins_x : e.twins_x[k] # e.final THEN "ReproducibleAcrossProcesses"
  ELSE "ok"

(***************************************************************************)
(* update_hof driven directly (spec behaviours replayed into the real      *)
(* method): hall of fame before, population handed in, hall of fame after, *)
(* entries [score, size] (size 0 = empty slot, score Inf).  The insertion  *)
(* rule is the one of MC_Evo: scan from the top; on an equal score insert  *)
(* before the entry only if the circuit is smaller; on a strictly better   *)
(* score insert before the entry; the last entry drops out.  The VERDICT    *)
(* clauses (HofClause) are the property's: HofSorted, HofFromKnown,        *)
(* BestKept; agreement with this exact rule is reported as information.    *)
(***************************************************************************)
InsertAt(h, i, x) == SubSeq(h, 1, i - 1) \o <<x>> \o SubSeq(h, i, Len(h) - 1)
RECURSIVE ScanH(_, _, _)
ScanH(h, x, i) ==
  IF i > Len(h) THEN h
  ELSE IF h[i].size # 0 /\ Close(x.score, h[i].score)
       THEN (IF x.size < h[i].size THEN InsertAt(h, i, x) ELSE ScanH(h, x, i + 1))
  ELSE IF x.score < h[i].score THEN InsertAt(h, i, x)
  ELSE ScanH(h, x, i + 1)
RECURSIVE UpdateAll(_, _, _)
UpdateAll(h, pop, j) == IF j > Len(pop) THEN h ELSE UpdateAll(ScanH(h, pop[j], 1), pop, j + 1)
\* what the PROPERTY demands of one update (the exact tie-breaking of UpdateAll above is the implementation's choice and
\* is only reported as information): same length, ordered, every entry is a circuit that was in the hall of fame or in
\* the population with the score it had there, and the best of everything seen heads the list
Entries(seq) == {<<seq[i].score, seq[i].size>> : i \in {j \in DOMAIN seq : seq[j].size # 0}}
MinScore(S) == IF S = {} THEN Inf ELSE CHOOSE x \in {p[1] : p \in S} : \A y \in {p[1] : p \in S} : x <= y
HofClause(e) ==
  IF e.err # "" THEN "Raised"
  ELSE IF Len(e.after) # Len(e.before) THEN "HofSize"
  ELSE IF \E i \in 1..(Len(e.after) - 1) : ~Leq(e.after[i].score, e.after[i + 1].score) THEN "HofSorted"
  ELSE IF \E i \in DOMAIN e.after : e.after[i].size # 0 /\
            ~\E p \in Entries(e.before) \cup Entries(e.pop) : Close(p[1], e.after[i].score) /\ p[2] = e.after[i].size
       THEN "HofFromKnown"
  ELSE IF Entries(e.before) \cup Entries(e.pop) # {} /\
          ~Leq(e.after[1].score, MinScore(Entries(e.before) \cup Entries(e.pop))) THEN "BestKept"
  ELSE "ok"
HofRuleInfo(e) ==
  e.err = "" /\ LET want == UpdateAll(e.before, e.pop, 1) IN
    Len(e.after) = Len(want) /\ \A i \in DOMAIN want : Close(want[i].score, e.after[i].score) /\ want[i].size = e.after[i].size

\* cause of a HofHonest rejection: when every dishonest entry's stored score IS what the library's own evaluation path
\* returns (stabilizer target, density-matrix state converted by density_to_stabilizer inside Infidelity), the mismatch
\* is the conversion defect C17-K1 surfacing through the solver, not the hall-of-fame bookkeeping
CauseOf(t, k, w) ==
  IF w = "HofHonest" /\ k >= 1 /\ Events(t)[k].ev = "gen"
     /\ \A i \in DOMAIN Events(t)[k].hof :
           LET h == Events(t)[k].hof[i] IN
           (h.oid # 0 /\ ~Close(h.score, h.rescore)) => (h.rescore_lib # Inf /\ Close(h.score, h.rescore_lib))
  THEN "metric-converts-dm-state-with-density_to_stabilizer"
  ELSE Traces[t].solver

Init == tid \in 1..Len(Traces) /\ l = 1 /\ why = "ok" /\ prev = [has |-> FALSE]
Next == /\ why = "ok" /\ l <= Len(Events(tid))
        /\ LET e == Events(tid)[l] IN
             IF e.ev = "update_hof"
             THEN why' = HofClause(e) /\ prev' = prev
             ELSE IF e.ev = "gen"
             THEN why' = GenClause(prev, e) /\ prev' = [has |-> TRUE, hof |-> e.hof]
             ELSE why' = FinalClause(prev, e) /\ prev' = prev
        /\ l' = l + 1 /\ tid' = tid
TraceSpec == Init /\ [][Next]_vars
Report ==
  /\ (why # "ok") => PrintT(<<"REJECT", Traces[tid].tid, l - 1, why, CauseOf(tid, l - 1, why)>>)
  /\ (why = "ok" /\ l = Len(Events(tid)) + 1) => PrintT(<<"DONE", Traces[tid].tid>>)
  /\ (why = "ok" /\ l > 1 /\ Events(tid)[l - 1].ev = "gen" /\ SharesObjects(Events(tid)[l - 1])) =>
        PrintT(<<"INFO", Traces[tid].tid, l - 1, "hall of fame shares circuit objects with the population or between entries">>)
  /\ (why = "ok" /\ l > 1 /\ Events(tid)[l - 1].ev = "update_hof") =>
        PrintT(<<"INFO", Traces[tid].tid, l - 1, IF HofRuleInfo(Events(tid)[l - 1]) THEN "update_hof follows the insertion rule of MC_Evo (ties: smaller circuit first)"
                         ELSE "update_hof deviates from the insertion rule of MC_Evo (allowed: the property fixes no tie-breaking)">>)
=============================================================================
