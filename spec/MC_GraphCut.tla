---------------------------- MODULE MC_GraphCut ----------------------------
(***************************************************************************)
(* Spec-level lemma for C03: for EVERY labelled graph on N vertices and    *)
(* every cut position k, the entanglement entropy of the graph state       *)
(* computed from its stabilizer group equals the GF(2) rank of the         *)
(* adjacency block joining {1..k} and {k+1..N}.                            *)
(***************************************************************************)
EXTENDS StabState, TLC
CONSTANT N
VARIABLE edges
V == 1..N
AllPairs == {{u, v} : u, v \in V} \ {{v} : v \in V}
Init == edges \in SUBSET AllPairs
Next == UNCHANGED edges
Spec == Init /\ [][Next]_edges

\* GF(2) rank of the block rows A x columns B by Gaussian elimination on sets of column-index sets
Row(u, B) == {v \in B : {u, v} \in edges}
XorSet(S, T) == (S \ T) \cup (T \ S)
RECURSIVE RankOf(_)
RankOf(rows) ==       \* rows: a set of non-empty subsets of columns (as a bag we only need distinct non-zero rows)
  IF rows = {} THEN 0
  ELSE LET r == CHOOSE x \in rows : TRUE
           piv == CHOOSE c \in r : TRUE
           rest == {IF piv \in x THEN XorSet(x, r) ELSE x : x \in rows \ {r}} \ {{}}
       IN 1 + RankOf(rest)
CutRank(k) == RankOf({Row(u, (k + 1)..N) : u \in 1..k} \ {{}})

CutRankLemma ==
  LET G == GraphState(N, edges) IN
  /\ IsStabGroup(G, N)
  /\ \A k \in 1..N : Height(G, k) = CutRank(k)
=============================================================================
