---------------------------- MODULE Trace_Compare ----------------------------
(***************************************************************************)
(* C15: circuit comparison and de-duplication.  A trace holds a list of    *)
(* circuits (records of CircuitRun + the order sequence() returned) and    *)
(* events, each a call of a real comparison function on circuits of the    *)
(* list.  Semantics of a circuit: the SET of final states over all         *)
(* measurement-outcome branches (Finals), computed by the spec.            *)
(***************************************************************************)
EXTENDS CircuitRun, TLC, Json, IOUtils
Traces == JsonDeserialize(IOEnv.TRACE_FILE)
VARIABLES tid, l, why, cause, failed
vars == <<tid, l, why, cause, failed>>
Events(t) == Traces[t].events
C(t, i) == Traces[t].circuits[i]

RECURSIVE RunOp(_, _, _, _)
RunOp(E, op, j, m) ==
  IF j > NGates(op) THEN E
  ELSE LET kind == ExecGate(op, j) IN
       RunOp(IF kind \in MeasuringKinds THEN ApplyMeasuring(E, kind, op.q, m) ELSE ApplyUnitary(E, kind, op.q),
             op, j + 1, m)
RECURSIVE Finals(_, _, _)
Finals(c, k, E) ==
  IF k > Len(c.order) THEN {E}
  ELSE LET op == c.ops[c.order[k]] IN
       IF op.kind \in MeasuringKinds
       THEN UNION {Finals(c, k + 1, RunOp(E, op, 1, m)) : m \in Outcomes(E, op.q, 2)}
       ELSE Finals(c, k + 1, RunOp(E, op, 1, 0))
Sem(c) == Finals(c, 1, Pure(ZeroGroup(c.nq)))
SameRegs(a, b) == a.np = b.np /\ a.ne = b.ne /\ a.nc = b.nc

\* renaming of registers of the same type: a permutation of 1..nq that maps photons to photons, emitters to emitters
TypePerms(c) ==
  {p \in [1..c.nq -> 1..c.nq] :
     /\ {p[x] : x \in 1..c.nq} = 1..c.nq
     /\ \A x \in 1..c.nq : (x <= c.np) <=> (p[x] <= c.np)}
PermP(g, p) == SP(g.s, [x \in 1..Len(g.p) |-> g.p[CHOOSE y \in 1..Len(g.p) : p[y] = x]])
PermEns(E, p) == {[g |-> {PermP(x, p) : x \in b.g}, w |-> b.w] : b \in E}
SemRenamed(c, p) == {PermEns(E, p) : E \in Sem(c)}
EquivUpTo(a, b, iso) ==
  /\ SameRegs(a, b)
  /\ IF iso THEN \E p \in TypePerms(b) : Sem(a) = SemRenamed(b, p) ELSE Sem(a) = Sem(b)

IsoMethod(m) == m \in {"is_isomorphic", "remove_redundant", "storage"}

Verdict(t, e) ==
  CASE e.fn = "compare" ->
         \* out.v = compare(circuits[a], circuits[b], method); rev = the call with arguments swapped
         IF e.out.err # "" THEN <<"Raised", e.method>>
         ELSE IF e.out.v /\ ~EquivUpTo(C(t, e.a), C(t, e.b), IsoMethod(e.method)) THEN <<"SoundEq", e.method>>
         ELSE IF e.rev.err = "" /\ e.rev.v # e.out.v THEN <<"Symmetric", e.method>>
         ELSE IF e.expect_equal /\ ~e.out.v THEN <<e.why, e.method>>
         ELSE <<"ok", "">>
    [] e.fn = "dedup" ->
         \* out.kept: indices (into circuits) of the circuits kept from the list e.list
         IF e.out.err # "" THEN <<"Raised", e.method>>
         ELSE IF \E i \in DOMAIN e.list :
                   \A k \in DOMAIN e.out.kept : ~EquivUpTo(C(t, e.list[i]), C(t, e.out.kept[k]), TRUE)
              THEN <<"DedupComplete", e.method>>
         ELSE IF {e.out.kept[k] : k \in DOMAIN e.out.kept} \subseteq {e.list[i] : i \in DOMAIN e.list} THEN <<"ok", "">>
         ELSE <<"DedupKeepsInputs", e.method>>
    [] OTHER -> <<"HarnessUnknownFn", "">>

Init == tid \in 1..Len(Traces) /\ l = 1 /\ why = "ok" /\ cause = "" /\ failed = FALSE
Next == /\ l <= Len(Events(tid))
        /\ LET v == Verdict(tid, Events(tid)[l]) IN why' = v[1] /\ cause' = v[2] /\ failed' = (failed \/ v[1] # "ok")
        /\ l' = l + 1 /\ tid' = tid
TraceSpec == Init /\ [][Next]_vars
Report ==
  /\ (why # "ok") => PrintT(<<"REJECT", Traces[tid].tid, l - 1, why, cause>>)
  /\ (~failed /\ l = Len(Events(tid)) + 1) => PrintT(<<"DONE", Traces[tid].tid>>)
=============================================================================
