-------------------------- MODULE Trace_Families --------------------------
(***************************************************************************)
(* Extension X01: every call of a graph-family constructor is an event     *)
(* {fam, args, out}; `out` is the returned graph with its vertices         *)
(* renumbered 1..n in sorted label order.  FamilyOK: vertex count and edge *)
(* set are exactly those of the family's definition in GraphFamilies.tla.  *)
(***************************************************************************)
EXTENDS GraphFamilies, TLC, Json, IOUtils
Traces == JsonDeserialize(IOEnv.TRACE_FILE)
VARIABLES tid, l, why
vars == <<tid, l, why>>
Events(t) == Traces[t].events

Expected(e) ==
  CASE e.fam = "path" -> Path(e.args[1])
    [] e.fam = "star" -> Star(e.args[1])
    [] e.fam = "repeater" -> Repeater(e.args[1])
    [] e.fam = "birepeater" -> BiRepeater(e.args[1])
    [] e.fam = "crazy" -> Crazy(e.args)
    [] e.fam = "twod" -> TwoD(e.args[1], e.args[2])
    [] e.fam = "threed" -> ThreeD(e.args[1], e.args[2], e.args[3])
    [] e.fam = "tree" -> Tree(e.args)

Verdict(e) ==
  IF e.out.err # "" THEN "Raised"
  ELSE LET f == Expected(e) IN
       IF e.out.n # f.n THEN "VertexCount"
       ELSE IF {{e.out.edges[j][1], e.out.edges[j][2]} : j \in DOMAIN e.out.edges} # f.e THEN "FamilyOK"
       ELSE "ok"

Init == tid \in 1..Len(Traces) /\ l = 1 /\ why = "ok"
Next ==
  /\ why = "ok" /\ l <= Len(Events(tid))
  /\ why' = Verdict(Events(tid)[l]) /\ l' = l + 1 /\ tid' = tid
TraceSpec == Init /\ [][Next]_vars
Report ==
  /\ (why # "ok") => PrintT(<<"REJECT", Traces[tid].tid, l - 1, why, Events(tid)[l - 1].fam>>)
  /\ (why = "ok" /\ l = Len(Events(tid)) + 1) => PrintT(<<"DONE", Traces[tid].tid>>)
=============================================================================
