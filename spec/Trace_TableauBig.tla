-------------------------- MODULE Trace_TableauBig --------------------------
(***************************************************************************)
(* Generator-level judge for LARGE Clifford tableaux (C07, n = 24 .. 200), *)
(* where the 2^n-element group of Trace_Tableau is out of reach.           *)
(*                                                                         *)
(* Spec state: rows = the stabilizer generators of the previous tableau.   *)
(* For every event the spec computes the EXPECTED generators E of the      *)
(* successor state from textbook semantics (gate: conjugate each row;      *)
(* Z-measurement with outcome m: replace one anticommuting generator by    *)
(* (-1)^m Z_q and multiply the other anticommuting ones by it; insert a    *)
(* qubit: shift letters, adjoin +Z_k; swap: permute letters).  The         *)
(* observed tableau is accepted iff it is a valid tableau (binary,         *)
(* hermitian stabilizers, symplectic/paired) and every observed stabilizer *)
(* row equals, SIGN INCLUDED, the product of the expected generators named *)
(* by a certificate (a set of indices found by the harness; TLC verifies   *)
(* the product, so nothing about the certificate is trusted).  n paired,   *)
(* hence independent, rows inside the expected group generate it: any      *)
(* re-gauging of the implementation is accepted, a wrong state is not.     *)
(* A deterministic measurement outcome is certified the same way:          *)
(* (-1)^m Z_q must be the product of the named generators.                 *)
(***************************************************************************)
EXTENDS Tableau, TLC, Json, IOUtils
Traces == JsonDeserialize(IOEnv.TRACE_FILE)
VARIABLES tid, l, why, rows
vars == <<tid, l, why, rows>>
Events(t) == Traces[t].events

\* product of the generators named by the (sorted) index sequence c, left to right; all commute
RECURSIVE ProdOf(_, _, _, _)
ProdOf(E, c, k, acc) == IF k > Len(c) THEN acc ELSE ProdOf(E, c, k + 1, Mul(acc, E[c[k]]))
Product(E, c, n) == ProdOf(E, c, 1, SP(0, IdP(n)))

AntiIdx(R, obs) == {i \in DOMAIN R : ~Commute(R[i], obs)}

\* expected generators of the successor state
Expected(R, e) ==
  LET n == Len(R) IN
  CASE e.ev = "g1" -> [i \in DOMAIN R |-> Apply1(e.g, R[i], e.a)]
    [] e.ev = "g2" -> [i \in DOMAIN R |-> Apply2(e.g, R[i], e.a, e.b)]
    [] e.ev = "swap" -> [i \in DOMAIN R |-> ApplySwap(R[i], e.a, e.b)]
    [] e.ev = "measz" ->
         LET obs == SP(e.out, ZAt(n, e.a)) A == AntiIdx(R, obs) IN
         IF A = {} THEN R
         ELSE LET p == Min(A) IN
              [i \in DOMAIN R |-> IF i = p THEN obs ELSE IF i \in A THEN Mul(R[i], R[p]) ELSE R[i]]
    [] e.ev = "insert" ->
         [i \in 1..(n + 1) |-> IF i <= n THEN SP(R[i].s, InsertLetter(R[i].p, e.k, 0)) ELSE SP(0, ZAt(n + 1, e.k))]

OutcomeClause(R, e) ==
  \* a determined outcome must be the one in the group, certified by e.ocert; an undetermined one obeys the forcing rule
  LET n == Len(R) obs == SP(e.out, ZAt(n, e.a)) IN
  IF AntiIdx(R, obs) = {} THEN (IF Product(R, e.ocert, n) = obs THEN "ok" ELSE "OutcomeOK")
  ELSE IF e.d \in {0, 1} /\ e.out # e.d THEN "OutcomeOK" ELSE "ok"

Verdict(R, e) ==
  LET o == e.post IN
  IF o.err # "" THEN "Raised"
  ELSE LET c == IF e.full THEN TClause(o)
                ELSE (IF ~TShape(o) THEN "Shape" ELSE IF ~TBinary(o) THEN "Binary"
                      ELSE IF ~TStabHermitian(o) THEN "StabHermitian" ELSE "ok") IN
    IF c # "ok" THEN c
    ELSE IF e.ev = "measz" /\ OutcomeClause(R, e) # "ok" THEN "OutcomeOK"
    ELSE LET E == Expected(R, e) n2 == Len(E) IN
      IF o.n # n2 \/ Len(e.cert) # n2 THEN "Shape"
      ELSE IF \E j \in 1..n2 : TStab(o, j) # Product(E, e.cert[j], n2) THEN "GroupOK"
      ELSE "ok"

Init ==
  /\ tid \in 1..Len(Traces) /\ l = 1
  /\ LET c == TClause(Traces[tid].init) IN
       /\ why = IF c = "ok" THEN "ok" ELSE "Init" \o c
       /\ rows = IF c = "ok" THEN TStabRows(Traces[tid].init) ELSE <<>>
Next ==
  /\ why = "ok" /\ l <= Len(Events(tid))
  /\ LET e == Events(tid)[l] v == Verdict(rows, e) IN
       /\ why' = v
       /\ rows' = IF v = "ok" THEN TStabRows(e.post) ELSE rows
  /\ l' = l + 1 /\ tid' = tid
TraceSpec == Init /\ [][Next]_vars
Report ==
  /\ (why # "ok") => PrintT(<<"REJECT", Traces[tid].tid, l - 1, why,
                              IF l = 1 THEN "init" ELSE LET e == Events(tid)[l - 1] IN IF e.ev \in {"g1", "g2"} THEN e.g ELSE e.ev>>)
  /\ (why = "ok" /\ l = Len(Events(tid)) + 1) => PrintT(<<"DONE", Traces[tid].tid>>)
=============================================================================
