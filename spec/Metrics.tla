------------------------------- MODULE Metrics -------------------------------
(***************************************************************************)
(* Cost metrics of a circuit, defined from its operation list and wires    *)
(* (circuit record of CircuitRun: ops [kind, q, c, gates], wires, np, ne). *)
(* "Expanded" = after unwrapping one-qubit wrappers into their elementary  *)
(* gates and dropping identity gates, as the metrics' definitions say.     *)
(***************************************************************************)
EXTENDS CircuitRun, TLC

\* expanded items <<id, k>> : the k-th EXECUTED gate of op id; identities dropped
ItemKind(c, it) == ExecGate(c.ops[it[1]], it[2])
ItemsOfOp(c, id) ==
  SelectSeq([k \in 1..NGates(c.ops[id]) |-> <<id, k>>], LAMBDA it : ItemKind(c, it) # "Identity")
RECURSIVE FlattenWire(_, _, _)
FlattenWire(c, w, j) == IF j > Len(w) THEN <<>> ELSE ItemsOfOp(c, w[j]) \o FlattenWire(c, w, j + 1)
ExpWire(c, key) == FlattenWire(c, c.wires[key], 1)
ExpItems(c) == UNION {{ExpWire(c, key)[j] : j \in DOMAIN ExpWire(c, key)} : key \in DOMAIN c.wires}

EmitterKey(i) == "e" \o ToString(i)
PhotonKey(i) == "p" \o ToString(i)
EmitterKeys(c) == {EmitterKey(i) : i \in 0..(c.ne - 1)}

\* all expanded wires at once: wire key |-> sequence of items
ExpWires(c) == [key \in DOMAIN c.wires |-> ExpWire(c, key)]
\* immediate predecessors of an item on each of its wires (<<0, 0>> stands for the register input)
PredsIn(EW, it) ==
  {IF j = 1 THEN <<0, 0>> ELSE EW[key][j - 1] :
     <<key, j>> \in {kj \in UNION {{<<key2, j2>> : j2 \in DOMAIN EW[key2]} : key2 \in DOMAIN EW} : EW[kj[1]][kj[2]] = it}}
\* depth of every node in the sense of the implementation's longest-chain recursion (input = -1), computed layer
\* by layer: a node is assigned once all its predecessors are
RECURSIVE DepthLayers(_, _, _)
DepthLayers(EW, todo, acc) ==
  IF todo = {} THEN acc
  ELSE LET ready == {it \in todo : PredsIn(EW, it) \subseteq DOMAIN acc}
       IN IF ready = {} THEN acc      \* cyclic input: leave the rest unassigned
          ELSE DepthLayers(EW, todo \ ready,
                           [it \in (DOMAIN acc) \cup ready |->
                              IF it \in DOMAIN acc THEN acc[it] ELSE 1 + Max({acc[p] : p \in PredsIn(EW, it)})])
DepthMapOf(EW) ==
  DepthLayers(EW, UNION {{EW[key][j] : j \in DOMAIN EW[key]} : key \in DOMAIN EW}, [it \in {<<0, 0>>} |-> -1])
OutDepthIn(EW, DM, key) == IF Len(EW[key]) = 0 THEN 0 ELSE 1 + DM[EW[key][Len(EW[key])]]

\* the same on the circuit as it stands (wrappers count as one operation, identities count): items <<id, 1>>
RawWires(c) == [key \in DOMAIN c.wires |-> [j \in DOMAIN c.wires[key] |-> <<c.wires[key][j], 1>>]]
RegDepth(c, key) == LET RW == RawWires(c) IN OutDepthIn(RW, DepthMapOf(RW), key)
Depth(c) ==
  IF Len(c.ops) = 0 THEN 0
  ELSE LET RW == RawWires(c) DM == DepthMapOf(RW) IN 1 + Max({DM[it] : it \in DOMAIN DM})

EmitterCount(c) == c.ne
IsEmitterQ(c, q) == q > c.np
EECnotCount(c) ==
  Cardinality({id \in DOMAIN c.ops : c.ops[id].kind = "CNOT" /\ IsEmitterQ(c, c.ops[id].q[1]) /\ IsEmitterQ(c, c.ops[id].q[2])})
UnitaryKinds == {"Hadamard", "Phase", "PhaseDagger", "SigmaX", "SigmaY", "SigmaZ", "CNOT", "CZ"}
UnitaryCount(c) == Cardinality({it \in ExpItems(c) : ItemKind(c, it) \in UnitaryKinds})
MeasureResetCount(c) == Cardinality({id \in DOMAIN c.ops : c.ops[id].kind = "MeasurementCNOTandReset"})

EmitDepth(c, key) == Len(ExpWire(c, key))
MaxEmitDepth(c) == Max({EmitDepth(c, key) : key \in EmitterKeys(c)})

\* positions (in the expanded wire) of the measure-and-reset operations, with 0 = input and Len+1 = output
Markers(c, key) ==
  LET w == ExpWire(c, key) IN
  <<0>> \o SelectSeq([j \in 1..Len(w) |-> j], LAMBDA j : ItemKind(c, w[j]) = "MeasurementCNOTandReset") \o <<Len(w) + 1>>
ResetDepth(c, key) == LET m == Markers(c, key) IN Max({m[j + 1] - m[j] : j \in 1..(Len(m) - 1)})
MaxEmitResetDepth(c) == Max({ResetDepth(c, key) : key \in EmitterKeys(c)})
EffDepthIn(c, EW, DM, key) ==
  LET m == Markers(c, key)
      md(pos) == IF pos = 0 THEN -1 ELSE IF pos = Len(EW[key]) + 1 THEN OutDepthIn(EW, DM, key) ELSE DM[EW[key][pos]]
  IN Max({md(m[j + 1]) - md(m[j]) : j \in 1..(Len(m) - 1)})
MaxEmitEffDepth(c) ==
  LET EW == ExpWires(c) DM == DepthMapOf(EW) IN Max({EffDepthIn(c, EW, DM, key) : key \in EmitterKeys(c)})

MetricValue(c, name) ==
  CASE name = "CircuitDepth" -> Depth(c)
    [] name = "CircuitEmitterCount" -> EmitterCount(c)
    [] name = "CircuitCnotCount" -> EECnotCount(c)
    [] name = "CircuitUnitaryCount" -> UnitaryCount(c)
    [] name = "CircuitMeasureCount" -> MeasureResetCount(c)
    [] name = "CircuitMaxEmitDepth" -> MaxEmitDepth(c)
    [] name = "CircuitMaxEmitResetDepth" -> MaxEmitResetDepth(c)
    [] name = "CircuitMaxEmitEffDepth" -> MaxEmitEffDepth(c)
=============================================================================
