--------------------------- MODULE Trace_NoiseMap ---------------------------
(***************************************************************************)
(* Role J for X06: a history of calls on one real McNoiseMap, each event   *)
(* with the error raised, the value returned (queries) and the WHOLE map   *)
(* afterwards: ErrorOK, MapOK (the map is what the call makes of the map   *)
(* before it; unchanged when the call raised), SumBoundOK, ReturnOK.       *)
(***************************************************************************)
EXTENDS NoiseMap, TLC, Json, IOUtils
Traces == JsonDeserialize(IOEnv.TRACE_FILE)
VARIABLES tid, l, why, m
vars == <<tid, l, why, m>>
Events(t) == Traces[t].events
Gates(t) == {Traces[t].gates[i] : i \in DOMAIN Traces[t].gates}
Pairs(l0) == [i \in DOMAIN l0 |-> [id |-> l0[i][1], p |-> l0[i][2]]]
ObsMap(t, o) == [k \in Kinds |-> [g \in Gates(t) |-> IF o[k][g].has THEN Entry(Pairs(o[k][g].l)) ELSE Absent]]
Ts(e) == [i \in DOMAIN e.ts |-> Tuple(e.ts[i][1], e.ts[i][2], e.ts[i][3])]
Step(st, e) ==
  CASE e.a = "add_tuple" -> AddTuple(st, e.k, e.g, Ts(e)[1])
    [] e.a = "add_gate" -> AddGate(st, e.k, e.g, Ts(e))
    [] e.a = "total" -> Total(st, e.k, e.g)
    [] e.a = "get" -> GetNoise(st, e.k, e.g)
Init == /\ tid \in 1..Len(Traces) /\ l = 1 /\ why = "ok" /\ m = EmptyMap(Gates(tid))
Next ==
  /\ why = "ok" /\ l <= Len(Events(tid))
  /\ LET e == Events(tid)[l] r == Step(m, e) o == ObsMap(tid, e.obs) IN
       /\ m' = o
       /\ why' = IF e.err # r[2] THEN "ErrorOK"
                 ELSE IF ~SumBound(o) THEN "SumBoundOK"
                 ELSE IF o # r[1] THEN "MapOK"
                 ELSE IF e.err = "" /\ e.a = "total" /\ e.ret # r[3] THEN "ReturnOK"
                 ELSE IF e.err = "" /\ e.a = "get" /\ Pairs(e.ret) # r[3] THEN "ReturnOK"
                 ELSE "ok"
  /\ l' = l + 1 /\ tid' = tid
TraceSpec == Init /\ [][Next]_vars
Report ==
  /\ (why # "ok") => PrintT(<<"REJECT", Traces[tid].tid, l - 1, why, Events(tid)[l - 1].a>>)
  /\ (why = "ok" /\ l = Len(Events(tid)) + 1) => PrintT(<<"DONE", Traces[tid].tid>>)
=============================================================================
