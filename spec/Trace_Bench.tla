---------------------------- MODULE Trace_Bench ----------------------------
(***************************************************************************)
(* Extension X01 (beyond the listed properties): the library's BENCHMARK   *)
(* circuits (graphiq/benchmarks/circuits.py) are shipped together with the *)
(* state they are said to prepare.  The circuit is projected to wires and  *)
(* an operation table as for the solver circuits; TLC executes it from     *)
(* |0...0> over EVERY combination of measurement outcomes, and in every    *)
(* terminal state                                                          *)
(*   Prepares    the qubits listed in `tq` carry exactly the shipped ideal *)
(*               state (given as its exact Pauli vector), and              *)
(*   RestIsZero  every other qubit is disentangled in |0>.                 *)
(***************************************************************************)
EXTENDS CircuitRun, TLC, Json, IOUtils

Traces == JsonDeserialize(IOEnv.TRACE_FILE)
VARIABLES tid, k, why, ens
vars == <<tid, k, why, ens>>

Circ(t) == Traces[t].circ
Order(t) == Traces[t].order
Embed(p, keep, n) == [x \in 1..n |-> IF \E j \in DOMAIN keep : keep[j] = x THEN p[CHOOSE j \in DOMAIN keep : keep[j] = x] ELSE 0]

RECURSIVE RunOp(_, _, _, _)
RunOp(E, op, j, m) ==
  IF j > NGates(op) THEN E
  ELSE LET kind == ExecGate(op, j) IN
       RunOp(IF kind \in MeasuringKinds THEN ApplyMeasuring(E, kind, op.q, m) ELSE ApplyUnitary(E, kind, op.q),
             op, j + 1, m)

FinalClause(t, E) ==
  LET c == Circ(t) tq == Traces[t].tq vec == Traces[t].vec m == Len(tq) IN
  IF Len(vec) # 4 ^ m THEN "IdealShape"
  ELSE IF \E p \in AllStrings(m) : ~REq(PV(E, Embed(p, tq, c.nq)), <<vec[PIndex(p) + 1][1], vec[PIndex(p) + 1][2]>>) THEN "Prepares"
  ELSE IF \E q \in 1..c.nq : (\A j \in DOMAIN tq : tq[j] # q) /\ ~REq(PV(E, ZAt(c.nq, q)), ROne) THEN "RestIsZero"
  ELSE "ok"

Init ==
  /\ tid \in 1..Len(Traces) /\ k = 1
  /\ why = IF Traces[tid].err # "" THEN "Raised" ELSE "ok"
  /\ ens = Pure(ZeroGroup(Circ(tid).nq))
Next ==
  /\ why = "ok" /\ k <= Len(Order(tid))
  /\ LET op == Circ(tid).ops[Order(tid)[k]] IN
       \E m \in 0..1 :
         /\ IF op.kind \in MeasuringKinds THEN m \in Outcomes(ens, op.q, 2) ELSE m = 0
         /\ LET E2 == RunOp(ens, op, 1, m) IN
              /\ ens' = E2
              /\ why' = IF k = Len(Order(tid)) THEN FinalClause(tid, E2) ELSE "ok"
  /\ k' = k + 1 /\ tid' = tid
TraceSpec == Init /\ [][Next]_vars
Report ==
  /\ (why # "ok") => PrintT(<<"REJECT", Traces[tid].tid, k - 1, why, Traces[tid].name>>)
  /\ (why = "ok" /\ k = Len(Order(tid)) + 1) => PrintT(<<"DONE", Traces[tid].tid>>)
=============================================================================
