----------------------------- MODULE MC_GraphRep -----------------------------
(***************************************************************************)
(* Role M / G for X02: every history of at most MaxLen calls over Nodes    *)
(* and Words.  Invariants: the object stays well formed; local             *)
(* complementation is an involution that touches only edges among the      *)
(* neighbours.  `hist` records the calls; Dump prints every history of     *)
(* length MaxLen so that the driver can replay it into the real class.     *)
(***************************************************************************)
EXTENDS GraphRep, Json
CONSTANTS Nodes, MaxLen
Words == {<<>>, <<"Hadamard">>, <<"Phase", "Hadamard">>, <<"SigmaX", "SigmaZ">>, <<"Hadamard", "Hadamard">>}
VARIABLES s, hist
vars == <<s, hist>>
Init == s = Empty /\ hist = <<>>
Call(name, u, v, w, r) ==
  /\ s' = r[1]
  /\ hist' = Append(hist, [a |-> name, u |-> u, v |-> v, w |-> w, err |-> r[2]])
Next ==
  /\ Len(hist) < MaxLen
  /\ \/ \E v \in Nodes, w \in Words : Call("add_node", v, 0, w, AddNode(s, v, w))
     \/ \E u, v \in Nodes : u # v /\ Call("add_edge", u, v, <<>>, AddEdge(s, u, v))
     \/ \E v \in Nodes, w \in Words : Call("update_lc", v, 0, w, UpdateLC(s, v, w))
     \/ \E v \in Nodes : Call("local_comp", v, 0, <<>>, LocalComp(s, v))
Spec == Init /\ [][Next]_vars
WellFormedInv == WellFormed(s)
LCInvolution ==
  \A v \in s.V : IsGraphState(s) =>
     LET t == LocalComp(s, v)[1] IN
     /\ LocalComp(t, v)[1] = s
     /\ \A e \in (s.E \ t.E) \cup (t.E \ s.E) : e \subseteq Nbrs(s, v)
     /\ Nbrs(t, v) = Nbrs(s, v)
Dump == (Len(hist) = MaxLen) => PrintT(<<"HIST", ToJson(hist)>>)
=============================================================================
