-------------------------- MODULE Trace_CircuitAll --------------------------
(***************************************************************************)
(* Role M on circuits PRODUCED BY THE REAL SOLVERS (C02, C03, C04, C10):   *)
(* the circuit (wires + operation table, projected from the returned       *)
(* CircuitDAG) is data; TLC executes it from |0...0> and explores EVERY    *)
(* combination of measurement outcomes.  In every terminal state the       *)
(* photons must be exactly in the target graph state and every emitter     *)
(* disentangled in |0>.  The linearisation is the order `sequence()`       *)
(* returned (checked to be consistent with the wires: OrderOK); that this  *)
(* loses nothing is the confluence lemma model-checked in MC_CircuitRun.   *)
(*                                                                         *)
(* Further clauses on the same record: EmissionShape (C04), emitter        *)
(* count = max height (C03), reported score = 0 (C02).                     *)
(***************************************************************************)
EXTENDS CircuitRun, Graphs, TLC, Json, IOUtils

Traces == JsonDeserialize(IOEnv.TRACE_FILE)

VARIABLES tid, k, why, ens, creg
vars == <<tid, k, why, ens, creg>>

Circ(t) == Traces[t].circ
Order(t) == Traces[t].order
Target(t) == Traces[t].target            \* [n, edges] on the photons, vertex v = photon v

\* the target, with its vertices renamed by the record's relabel map when it has one (alternate-target results):
\* vertex v becomes map[v], so the edge set is {map[u], map[v]} for every target edge {u, v}
EdgeSet(tg) ==
  IF Len(tg.map) = 0 THEN {{tg.edges[j][1], tg.edges[j][2]} : j \in DOMAIN tg.edges}
  ELSE {{tg.map[tg.edges[j][1]], tg.map[tg.edges[j][2]]} : j \in DOMAIN tg.edges}
MapOK(tg) == Len(tg.map) = 0 \/ IsPerm(tg.n, tg.map)

\* `order` is a linearisation of the circuit: a permutation of the ops that respects every wire
OrderConsistent(c, ord) ==
  /\ Len(ord) = Len(c.ops)
  /\ {ord[j] : j \in DOMAIN ord} = DOMAIN c.ops
  /\ \A w \in WireNames(c) : \A i, j \in DOMAIN c.wires[w] :
        i < j => (CHOOSE a \in DOMAIN ord : ord[a] = c.wires[w][i]) < (CHOOSE b \in DOMAIN ord : ord[b] = c.wires[w][j])

(***************************************************************************)
(* Emission constraints (C04) on the operation table.                      *)
(***************************************************************************)
IsPhoton(c, q) == q <= c.np
PhotonWire(c, p) == c.wires["p" \o ToString(p - 1)]
EmissionShape(c) ==
  /\ \A id \in DOMAIN c.ops :                       \* no two-qubit operation between two photons
       Len(c.ops[id].q) = 2 => ~(IsPhoton(c, c.ops[id].q[1]) /\ IsPhoton(c, c.ops[id].q[2]))
  /\ \A p \in 1..c.np :
       LET w == PhotonWire(c, p) IN
       /\ Len(w) >= 1
       /\ LET first == c.ops[w[1]] IN              \* first operation: emission CNOT controlled by an emitter
            first.kind = "CNOT" /\ first.q[2] = p /\ ~IsPhoton(c, first.q[1])
       /\ \A j \in 2..Len(w) :                       \* afterwards: one-qubit gates or targets of measured corrections
            LET op == c.ops[w[j]] IN
            \/ Len(op.q) = 1 /\ op.kind # "MeasurementZ"
            \/ (op.kind \in {"ClassicalCNOT", "ClassicalCZ", "MeasurementCNOTandReset"} /\ op.q[2] = p)
EmittedOnce(c) ==
  \A p \in 1..c.np :
    Cardinality({id \in DOMAIN c.ops : c.ops[id].kind = "CNOT" /\ c.ops[id].q[2] = p /\ ~IsPhoton(c, c.ops[id].q[1])}) = 1

\* the minimum number of emitters for this emission order: max over cuts of the entanglement entropy
MaxHeight(tg) ==
  LET G == GraphState(tg.n, EdgeSet(tg)) IN
  IF tg.n = 0 THEN 0 ELSE Max({Height(G, j) : j \in 1..tg.n})

HasIsolated(tg) == \E v \in 1..tg.n : \A e \in EdgeSet(tg) : v \notin e

StaticClause(t) ==
  LET c == Circ(t) tg == Target(t) IN
  IF Traces[t].err # "" THEN "SolverRaised"
  ELSE IF c.np # tg.n THEN "PhotonCount"
  ELSE IF ~MapOK(tg) THEN "MapIsPerm"
  ELSE IF ~OrderConsistent(c, Order(t)) THEN "OrderOK"
  ELSE IF Traces[t].check_shape /\ ~EmissionShape(c) THEN "EmissionShape"
  ELSE IF Traces[t].check_shape /\ ~EmittedOnce(c) THEN "EmittedOnce"
  ELSE IF Traces[t].check_emitters /\ c.ne # MaxHeight(tg) THEN "EmitterCountMinimal"
  ELSE "ok"

Goal(t) == TensorG(GraphState(Target(t).n, EdgeSet(Target(t))), ZeroGroup(Circ(t).ne))
GoalNoEmitters(t) == GraphState(Target(t).n, EdgeSet(Target(t)))

\* run all gates of one operation (wrappers have several, executed last-listed first)
RECURSIVE RunOp(_, _, _, _)
RunOp(E, op, j, m) ==
  IF j > NGates(op) THEN E
  ELSE LET kind == ExecGate(op, j) IN
       RunOp(IF kind \in MeasuringKinds THEN ApplyMeasuring(E, kind, op.q, m) ELSE ApplyUnitary(E, kind, op.q),
             op, j + 1, m)

FinalClause(t, E) ==
  LET goal == IF Circ(t).ne = 0 THEN GoalNoEmitters(t) ELSE Goal(t) IN
  IF E # Pure(goal) THEN "Generates"
  ELSE IF Traces[t].score[1] # 0 THEN "ScoreIsTrueInfidelity"
  ELSE "ok"

Init ==
  /\ tid \in 1..Len(Traces)
  /\ k = 1
  /\ why = LET s == StaticClause(tid) IN
           IF s = "ok" /\ Len(Order(tid)) = 0 THEN FinalClause(tid, Pure(ZeroGroup(Circ(tid).nq))) ELSE s
  /\ ens = Pure(ZeroGroup(Circ(tid).nq))
  /\ creg = [c \in 1..Circ(tid).nc |-> 0]

Next ==
  /\ why = "ok"
  /\ k <= Len(Order(tid))
  /\ LET op == Circ(tid).ops[Order(tid)[k]] IN
       \E m \in 0..1 :
         /\ IF op.kind \in MeasuringKinds THEN m \in Outcomes(ens, op.q, 2) ELSE m = 0
         /\ LET E2 == RunOp(ens, op, 1, m) IN
              /\ ens' = E2
              /\ creg' = IF op.kind \in MeasuringKinds THEN SetCreg(creg, op.c, m) ELSE creg
              /\ why' = IF k = Len(Order(tid)) THEN FinalClause(tid, E2) ELSE "ok"
  /\ k' = k + 1 /\ tid' = tid

TraceSpec == Init /\ [][Next]_vars

Report ==
  /\ (why # "ok") => PrintT(<<"REJECT", Traces[tid].tid, k - 1, why,
                               IF why = "SolverRaised" /\ HasIsolated(Target(tid))
                               THEN Traces[tid].err \o ":isolated-vertex" ELSE Traces[tid].err>>)
  /\ (why = "ok" /\ k = Len(Order(tid)) + 1) => PrintT(<<"DONE", Traces[tid].tid>>)
=============================================================================
