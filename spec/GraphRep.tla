------------------------------ MODULE GraphRep ------------------------------
(***************************************************************************)
(* Extension X02: the graph REPRESENTATION object (backends/graph/state.py *)
(* class Graph) as a sequential state machine.  Abstract state: a record   *)
(*   [V |-> set of vertices, E |-> set of two-element vertex sets,         *)
(*    lc |-> function V -> single-qubit Clifford element]                  *)
(* lc[v] is the local Clifford that the object remembers for vertex v (the *)
(* state it stands for is prod_v lc[v] |G>); a word (list of gate class    *)
(* names) handed to the API denotes the matrix product of the list         *)
(* (Cliff1!ElemOfList).  Every public mutator is one operator mapping a    *)
(* state to <<next state, error>>; MC_GraphRep makes them actions,         *)
(* Trace_GraphRep judges recorded calls with the same operators.           *)
(***************************************************************************)
EXTENDS Cliff1, FiniteSets, Sequences, Naturals

St(V, E, lc) == [V |-> V, E |-> E, lc |-> lc]
Empty == St({}, {}, <<>>)
WellFormed(s) ==
  /\ \A e \in s.E : e \subseteq s.V /\ Cardinality(e) = 2
  /\ DOMAIN s.lc = s.V
  /\ \A v \in s.V : ValidElem(s.lc[v])
IsGraphState(s) == \A v \in s.V : s.lc[v] = IdElem
Nbrs(s, v) == {u \in s.V : {u, v} \in s.E}

Ext(lc, v, el) == [u \in (DOMAIN lc) \cup {v} |-> IF u = v THEN el ELSE lc[u]]

\* add_node(v, word): a vertex that exists is left alone (its word too)
AddNode(s, v, w) == IF v \in s.V THEN <<s, "">> ELSE <<St(s.V \cup {v}, s.E, Ext(s.lc, v, ElemOfList(w))), "">>
\* add_edge(u, v), u # v: missing end points are created with the identity
AddEdge(s, u, v) ==
  LET s1 == AddNode(s, u, <<>>)[1] s2 == AddNode(s1, v, <<>>)[1] IN <<St(s2.V, s2.E \cup {{u, v}}, s2.lc), "">>
\* update_lc(v, word): replaces (does not compose with) the remembered Clifford; unknown vertex -> ValueError
UpdateLC(s, v, w) ==
  IF v \notin s.V THEN <<s, "ValueError">> ELSE <<St(s.V, s.E, [s.lc EXCEPT ![v] = ElemOfList(w)]), "">>
\* local_complementation(v): only defined on graph states (all remembered Cliffords trivial)
Toggle(E, pairs) == (E \ pairs) \cup (pairs \ E)
LocalComp(s, v) ==
  IF ~IsGraphState(s) THEN <<s, "NotImplementedError">>
  ELSE IF v \notin s.V THEN <<s, "ValueError">>
  ELSE <<St(s.V, Toggle(s.E, {{a, b} : a, b \in Nbrs(s, v)} \ {{a} : a \in Nbrs(s, v)}), s.lc), "">>
=============================================================================
