---------------------------- MODULE MC_PhotonLoss ----------------------------
(***************************************************************************)
(* Role M / G for X07: every circuit of at most MaxLen operations over two *)
(* photons and one emitter (one-qubit gates on a photon, photon-photon,    *)
(* emitter-photon and photon-emitter pairs) with loss exponents 0..MaxK on *)
(* every qubit of every operation.  Survival stays in (0, 1], never grows  *)
(* when an operation is appended (Monotone), only depends on the           *)
(* operations touching the photon (Local).  Dump prints every complete     *)
(* circuit for replay into the code.                                       *)
(***************************************************************************)
EXTENDS PhotonLoss, TLC, Json
CONSTANTS MaxLen, MaxK
VARIABLES ops
vars == <<ops>>
Photons == {"p0", "p1"}
Shapes == {<<"p0">>, <<"p1">>, <<"p0", "p1">>, <<"p1", "p0">>, <<"e0", "p0">>, <<"e0", "p1">>, <<"p1", "e0">>, <<"p0", "e0">>}
OpsOf(q) == {[q |-> q, loss |-> l] : l \in [DOMAIN q -> 0..MaxK]}
Init == ops = <<>>
Next == /\ Len(ops) < MaxLen
        /\ \E q \in Shapes : \E o \in OpsOf(q) : ops' = Append(ops, o)
Spec == Init /\ [][Next]_vars
InRange == \A w \in Photons : InUnitInterval(Survival(ops, w))
Monotone == [][\A w \in Photons : LessEq(Survival(ops', w), Survival(ops, w))]_vars
Local == \A w \in Photons :
           Survival(ops, w) = Survival(SelectSeq(ops, LAMBDA o : \E j \in DOMAIN o.q : o.q[j] = w), w)
Dump == (Len(ops) = MaxLen) => PrintT(<<"HIST", ToJson([ops |-> ops])>>)
=============================================================================
