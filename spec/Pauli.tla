------------------------------- MODULE Pauli -------------------------------
(***************************************************************************)
(* Signed Pauli strings and their conjugation by Clifford gates.           *)
(*                                                                         *)
(* A Pauli string is a sequence of letters 0 = I, 1 = X, 2 = Z, 3 = Y      *)
(* (letter = x + 2 z); a signed Pauli is a record [s |-> 0..1, p |-> seq]  *)
(* denoting (-1)^s p[1] (x) p[2] (x) ... with HERMITIAN letters (Y = iXZ). *)
(* The module is size-free: the number of qubits is Len(g.p), so one trace *)
(* batch may mix sizes.  Nothing here is taken from graphiq.               *)
(***************************************************************************)
EXTENDS Naturals, Integers, Sequences, FiniteSets, FiniteSetsExt, Functions, Folds

XB(a) == IF a = 1 \/ a = 3 THEN 1 ELSE 0
ZB(a) == IF a = 2 \/ a = 3 THEN 1 ELSE 0
Letter(x, z) == x + 2 * z
Xor2(a, b) == (a + b) % 2
XorL(a, b) == Letter(Xor2(XB(a), XB(b)), Xor2(ZB(a), ZB(b)))

SP(s, p) == [s |-> s, p |-> p]
NQ(g) == Len(g.p)
Neg(g) == SP(1 - g.s, g.p)

\* a * b = i^k c for single hermitian letters: XY = iZ, YZ = iX, ZX = iY, reversed = -i
PhaseK(a, b) ==
  IF a = 0 \/ b = 0 \/ a = b THEN 0
  ELSE IF (a = 1 /\ b = 3) \/ (a = 3 /\ b = 2) \/ (a = 2 /\ b = 1) THEN 1
  ELSE 3

Anti1(a, b) == a # 0 /\ b # 0 /\ a # b
\* two strings commute iff they anticommute on an even number of positions
CommuteP(p, q) == Cardinality({x \in DOMAIN p : Anti1(p[x], q[x])}) % 2 = 0
Commute(g, h) == CommuteP(g.p, h.p)

\* exponent of i (mod 4) of the product p * q of two unsigned strings
MulK(p, q) == FoldFunctionOnSet(LAMBDA v, acc : acc + v, 0,
                                [x \in DOMAIN p |-> PhaseK(p[x], q[x])], DOMAIN p) % 4
MulP(p, q) == [x \in DOMAIN p |-> XorL(p[x], q[x])]
\* product of two COMMUTING signed Paulis (then MulK is even and the result is hermitian)
Mul(g, h) == SP((g.s + h.s + (MulK(g.p, h.p) \div 2)) % 2, MulP(g.p, h.p))

IdP(n) == [x \in 1..n |-> 0]
At(n, a, letter) == [x \in 1..n |-> IF x = a THEN letter ELSE 0]
ZAt(n, a) == At(n, a, 2)
XAt(n, a) == At(n, a, 1)
YAt(n, a) == At(n, a, 3)
Weight(p) == Cardinality({x \in DOMAIN p : p[x] # 0})
Supp(p) == {x \in DOMAIN p : p[x] # 0}

(***************************************************************************)
(* Conjugation U g U^dagger, letter-wise tables <<new letter, sign flip>>. *)
(***************************************************************************)
C1(gate, a) ==
  CASE gate = "I"  -> <<a, 0>>
    [] gate = "H"  -> (CASE a = 0 -> <<0, 0>> [] a = 1 -> <<2, 0>> [] a = 2 -> <<1, 0>> [] a = 3 -> <<3, 1>>)
    [] gate = "P"  -> (CASE a = 0 -> <<0, 0>> [] a = 1 -> <<3, 0>> [] a = 2 -> <<2, 0>> [] a = 3 -> <<1, 1>>)
    [] gate = "PD" -> (CASE a = 0 -> <<0, 0>> [] a = 1 -> <<3, 1>> [] a = 2 -> <<2, 0>> [] a = 3 -> <<1, 0>>)
    [] gate = "X"  -> (CASE a = 0 -> <<0, 0>> [] a = 1 -> <<1, 0>> [] a = 2 -> <<2, 1>> [] a = 3 -> <<3, 1>>)
    [] gate = "Y"  -> (CASE a = 0 -> <<0, 0>> [] a = 1 -> <<1, 1>> [] a = 2 -> <<2, 1>> [] a = 3 -> <<3, 0>>)
    [] gate = "Z"  -> (CASE a = 0 -> <<0, 0>> [] a = 1 -> <<1, 1>> [] a = 2 -> <<2, 0>> [] a = 3 -> <<3, 1>>)

OneQubitGates == {"I", "H", "P", "PD", "X", "Y", "Z"}
TwoQubitGates == {"CNOT", "CZ", "CY"}

Apply1(gate, g, a) ==
  LET c == C1(gate, g.p[a]) IN SP((g.s + c[2]) % 2, [g.p EXCEPT ![a] = c[1]])

\* CNOT c -> t : X_c -> X_c X_t, Z_t -> Z_c Z_t; the sign flips iff x_c z_t (x_t + z_c + 1)
ApplyCX(g, c, t) ==
  LET xc == XB(g.p[c]) zc == ZB(g.p[c]) xt == XB(g.p[t]) zt == ZB(g.p[t])
      fl == xc * zt * ((xt + zc + 1) % 2)
  IN SP((g.s + fl) % 2,
        [g.p EXCEPT ![c] = Letter(xc, Xor2(zc, zt)), ![t] = Letter(Xor2(xt, xc), zt)])
\* CZ = H_t CNOT H_t ;  CY = P_t CNOT PD_t  (conjugation applies the rightmost factor first)
ApplyCZ(g, c, t) == Apply1("H", ApplyCX(Apply1("H", g, t), c, t), t)
ApplyCY(g, c, t) == Apply1("P", ApplyCX(Apply1("PD", g, t), c, t), t)
\* direct table for CZ (X_c -> X_c Z_t, X_t -> Z_c X_t; sign flips iff x_c x_t (z_c + z_t)); lemma: = ApplyCZ
ApplyCZdirect(g, c, t) ==
  LET xc == XB(g.p[c]) zc == ZB(g.p[c]) xt == XB(g.p[t]) zt == ZB(g.p[t])
      fl == xc * xt * Xor2(zc, zt)
  IN SP((g.s + fl) % 2,
        [g.p EXCEPT ![c] = Letter(xc, Xor2(zc, xt)), ![t] = Letter(xt, Xor2(zt, xc))])

Apply2(gate, g, c, t) ==
  CASE gate = "CNOT" -> ApplyCX(g, c, t)
    [] gate = "CZ"   -> ApplyCZ(g, c, t)
    [] gate = "CY"   -> ApplyCY(g, c, t)

ApplySwap(g, a, b) == SP(g.s, [g.p EXCEPT ![a] = g.p[b], ![b] = g.p[a]])

\* a word of one-qubit gate names; word[1] is applied FIRST
RECURSIVE ApplyWord(_, _, _)
ApplyWord(word, g, a) ==
  IF word = <<>> THEN g ELSE ApplyWord(Tail(word), Apply1(Head(word), g, a), a)

(***************************************************************************)
(* Re-indexing of strings.                                                 *)
(***************************************************************************)
InsertLetter(p, k, letter) ==
  [x \in 1..(Len(p) + 1) |-> IF x < k THEN p[x] ELSE IF x = k THEN letter ELSE p[x - 1]]
DropLetter(p, k) == [x \in 1..(Len(p) - 1) |-> IF x < k THEN p[x] ELSE p[x + 1]]
ConcatP(p, q) == p \o q
\* restriction to a strictly increasing sequence of kept positions
KeepLetters(p, keep) == [x \in 1..Len(keep) |-> p[keep[x]]]

\* index of a string in base-4 order (first letter most significant), 0-based
RECURSIVE PIndexAcc(_, _, _)
PIndexAcc(p, x, acc) == IF x > Len(p) THEN acc ELSE PIndexAcc(p, x + 1, 4 * acc + p[x])
PIndex(p) == PIndexAcc(p, 1, 0)
AllStrings(n) == [1..n -> 0..3]
=============================================================================
