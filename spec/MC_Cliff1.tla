------------------------------ MODULE MC_Cliff1 ------------------------------
(***************************************************************************)
(* Role M for C20: the closure machine e' = g o e for g in {H, P} from the *)
(* identity reaches exactly 24 elements; group axioms; words and           *)
(* composition agree.                                                      *)
(***************************************************************************)
EXTENDS Cliff1, FiniteSets
VARIABLES e, word
Gens == {"Hadamard", "Phase"}
Init == e = IdElem /\ word = <<>>
\* prepending a gate to the list = multiplying on the left = it acts LAST
Next == \E g \in Gens : e' = Compose(ElemOfList(<<g>>), e) /\ word' = <<g>> \o word
Spec == Init /\ [][Next]_<<e, word>>
View == e
Bound == Len(word) <= 8
WordAgrees == e = ElemOfList(word)
Valid == ValidElem(e)
AllKinds7 == {"Identity", "Hadamard", "Phase", "PhaseDagger", "SigmaX", "SigmaY", "SigmaZ"}
Axioms ==
  /\ Compose(e, IdElem) = e /\ Compose(IdElem, e) = e
  /\ \A k \in AllKinds7 : ValidElem(Compose(ElemOfList(<<k>>), e))
  /\ Compose(ElemOfList(<<"Phase", "Phase">>), e) = Compose(ElemOfList(<<"SigmaZ">>), e)
  /\ Compose(ElemOfList(<<"Hadamard", "SigmaZ", "Hadamard">>), e) = Compose(ElemOfList(<<"SigmaX">>), e)
  /\ Compose(ElemOfList(<<"PhaseDagger", "Phase">>), e) = e
=============================================================================
