----------------------------- MODULE PhotonLoss -----------------------------
(***************************************************************************)
(* Extension X07: photon-loss accounting (utils/photon_loss.py,            *)
(* photon_survival_rate).  A circuit is the sequence of its operations;    *)
(* each operation lists the wires it acts on ("p0", "e1", ...) and, per    *)
(* wire, the loss exponent k of the noise attached to THAT qubit (loss     *)
(* rate 1 / 2^k; 0 = no photon loss there).  The survival rate of a photon *)
(* is the product, over the operations acting on it, of the probability    *)
(* that it is not lost in that operation; rationals are <<num, den>>.      *)
(***************************************************************************)
EXTENDS Naturals, Sequences
RECURSIVE Pow2(_)
Pow2(k) == IF k = 0 THEN 1 ELSE 2 * Pow2(k - 1)
Keep(k) == IF k = 0 THEN <<1, 1>> ELSE <<Pow2(k) - 1, Pow2(k)>>       \* 1 - 1/2^k
Mul(a, b) == <<a[1] * b[1], a[2] * b[2]>>                            \* denominators are powers of two, numerators odd:
                                                                     \* the product is already in lowest terms
\* probability that wire w survives operation o (it may appear at most once in o.q)
KeepIn(o, w) == IF \E j \in DOMAIN o.q : o.q[j] = w THEN Keep(o.loss[CHOOSE j \in DOMAIN o.q : o.q[j] = w]) ELSE <<1, 1>>
RECURSIVE Survival(_, _)
Survival(ops, w) == IF ops = <<>> THEN <<1, 1>> ELSE Mul(KeepIn(Head(ops), w), Survival(Tail(ops), w))
InUnitInterval(r) == r[1] >= 1 /\ r[1] <= r[2]
LessEq(a, b) == a[1] * b[2] <= b[1] * a[2]
=============================================================================
