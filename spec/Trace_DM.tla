------------------------------- MODULE Trace_DM -------------------------------
(***************************************************************************)
(* C17: density-matrix fidelity, trace distance, partial trace and the     *)
(* infidelity metric, judged on stabilizer MIXTURES (exact rational        *)
(* values) and, for generic matrices, by relational laws on fixed-point    *)
(* numbers (scale 10^4).                                                   *)
(* A state is [branches |-> sequence of [w |-> <<n, d>>, sw |-> <<n, d>>,  *)
(* rows |-> generators]] with sw^2 = w (rational square roots, so that the *)
(* Uhlmann fidelity of commuting mixtures is rational).                    *)
(***************************************************************************)
EXTENDS Ensemble, TLC, Json, IOUtils
Traces == JsonDeserialize(IOEnv.TRACE_FILE)
VARIABLES tid, l, why, cause, failed
vars == <<tid, l, why, cause, failed>>
Events(t) == Traces[t].events
St(t, k) == Traces[t].states[k]
NQs(s) == Len(s.branches[1].rows)

BranchGroup(b) == GenGroup(b.rows, Len(b.rows))
EnsOf(s) == MergeTagged({[t |-> k, g |-> BranchGroup(s.branches[k]), w |-> Norm(s.branches[k].w[1], s.branches[k].w[2])]
                         : k \in DOMAIN s.branches})
StateOK(s) ==
  /\ \A k \in DOMAIN s.branches :
       LET b == s.branches[k] IN
       /\ PairwiseCommute({b.rows[i] : i \in DOMAIN b.rows}) /\ IsStabGroup(BranchGroup(b), Len(b.rows))
       /\ b.w[1] > 0 /\ REq(RMul(<<b.sw[1], b.sw[2]>>, <<b.sw[1], b.sw[2]>>), <<b.w[1], b.w[2]>>)
  /\ REq(TotalWeight(EnsOf(s)), ROne)
IsPureS(s) == Cardinality(EnsOf(s)) = 1
\* all branches of both states are pairwise equal or orthogonal (one common eigenbasis): the matrices commute
OrthoFamily(a, b) ==
  LET Gs == {BranchGroup(a.branches[k]) : k \in DOMAIN a.branches} \cup {BranchGroup(b.branches[k]) : k \in DOMAIN b.branches}
  IN \A g, h \in Gs : g = h \/ FidelityNum(g, h) = 0
\* weight / sqrt-weight of group G in state s (0 if absent); requires distinct branches to have distinct groups
SqrtW(s, G) == LET ks == {k \in DOMAIN s.branches : BranchGroup(s.branches[k]) = G} IN
               IF ks = {} THEN RZero ELSE LET k == CHOOSE x \in ks : TRUE IN <<s.branches[k].sw[1], s.branches[k].sw[2]>>
WOf(s, G) == LET ks == {b \in EnsOf(s) : b.g = G} IN IF ks = {} THEN RZero ELSE (CHOOSE b \in ks : TRUE).w
DistinctBranches(s) == Cardinality({BranchGroup(s.branches[k]) : k \in DOMAIN s.branches}) = Len(s.branches)
RSumSet(S, f(_)) == FoldSet(LAMBDA x, acc : RAdd(acc, f(x)), RZero, S)
RAbs(a) == IF a[1] < 0 THEN RNeg(a) ELSE a
AllGroups(a, b) == Groups(EnsOf(a)) \cup Groups(EnsOf(b))

\* expected fidelity: <<known, value>>
ExpFidelity(a, b) ==
  IF IsPureS(a) THEN <<TRUE, FidelityPure(EnsOf(b), (CHOOSE x \in EnsOf(a) : TRUE).g)>>
  ELSE IF IsPureS(b) THEN <<TRUE, FidelityPure(EnsOf(a), (CHOOSE x \in EnsOf(b) : TRUE).g)>>
  ELSE IF OrthoFamily(a, b) /\ DistinctBranches(a) /\ DistinctBranches(b) THEN
       LET s == RSumSet(AllGroups(a, b), LAMBDA G : RMul(SqrtW(a, G), SqrtW(b, G))) IN <<TRUE, RMul(s, s)>>
  ELSE <<FALSE, RZero>>
ExpTraceDist(a, b) ==
  IF OrthoFamily(a, b) THEN
     <<TRUE, RMul(<<1, 2>>, RSumSet(AllGroups(a, b), LAMBDA G : RAbs(RSub(WOf(a, G), WOf(b, G)))))>>
  ELSE <<FALSE, RZero>>

RatOut(o) == <<o.n, o.d>>
\* the group is that of a graph state: for every vertex v it contains +X_v with only I / Z elsewhere
GraphLike(G) ==
  LET n == NOf(G) IN
  \A v \in 1..n : \E g \in G : g.s = 0 /\ g.p[v] = 1 /\ \A u \in (1..n) \ {v} : g.p[u] \in {0, 2}
\* restriction of the Pauli vector to strings supported on the kept positions
Embed(p, keep, n) == [x \in 1..n |-> IF \E j \in DOMAIN keep : keep[j] = x THEN p[CHOOSE j \in DOMAIN keep : keep[j] = x] ELSE 0]

FxScale == 10000          \* TLC integers are 32 bit: squares of the scale must fit
TolFx == 2
Verdict(t, e) ==
  CASE e.fn = "fidelity" ->
         LET a == St(t, e.a) b == St(t, e.b) ex == ExpFidelity(a, b) IN
         IF ~StateOK(a) \/ ~StateOK(b) THEN <<"HarnessStateInvalid", e.via>>
         ELSE IF e.out.err # "" THEN <<"Raised", e.via>>
         ELSE IF ex[1] /\ (e.out.d = 0 \/ ~REq(RatOut(e.out), ex[2])) THEN
              <<IF IsPureS(a) /\ IsPureS(b) THEN "PureOverlap" ELSE IF IsPureS(a) \/ IsPureS(b) THEN "PureMixedOverlap"
                ELSE "UhlmannCommuting", e.via>>
         ELSE <<"ok", "">>
    [] e.fn = "trace_distance" ->
         LET a == St(t, e.a) b == St(t, e.b) ex == ExpTraceDist(a, b) IN
         IF ~StateOK(a) \/ ~StateOK(b) THEN <<"HarnessStateInvalid", e.via>>
         ELSE IF e.out.err # "" THEN <<"Raised", e.via>>
         ELSE IF ex[1] /\ (e.out.d = 0 \/ ~REq(RatOut(e.out), ex[2])) THEN
              <<"TraceDistCommuting",
                IF e.via = "TraceDistance(target=dm,state=s)" /\ \E k \in DOMAIN b.branches[1].rows : b.branches[1].rows[k].s = 1
                THEN "stabilizer-rows-with-minus-sign" ELSE e.via>>
         ELSE <<"ok", "">>
    [] e.fn = "infidelity" ->
         LET a == St(t, e.a) b == St(t, e.b) ex == ExpFidelity(a, b) IN
         IF e.out.err # "" THEN <<"Raised", e.via>>
         ELSE IF ex[1] /\ (e.out.d = 0 \/ ~REq(RatOut(e.out), RSub(ROne, ex[2]))) THEN
              <<"InfidelityCrossRep",
                IF e.via = "Infidelity(target=s,state=dm)" /\ ~GraphLike((CHOOSE x \in EnsOf(b) : TRUE).g)
                THEN "dm-state-not-a-graph-state"
                ELSE IF e.via = "Infidelity(target=dm,state=s)" /\ \E k \in DOMAIN b.branches[1].rows : b.branches[1].rows[k].s = 1
                THEN "stabilizer-rows-with-minus-sign"
                ELSE e.via>>
         ELSE <<"ok", "">>
    [] e.fn = "partial_trace" ->
         LET a == St(t, e.a) n == NQs(a) m == Len(e.keep) E == EnsOf(a) IN
         IF ~StateOK(a) THEN <<"HarnessStateInvalid", e.via>>
         ELSE IF e.out.err # "" THEN <<"Raised", e.via>>
         ELSE IF e.out.bad # "" THEN <<"ObsInvalid", e.via>>
         ELSE IF Len(e.out.vec) # 4 ^ m THEN <<"PartialTraceShape", e.via>>
         ELSE IF \E p \in AllStrings(m) :
                   ~REq(PV(E, Embed(p, e.keep, n)), <<e.out.vec[PIndex(p) + 1][1], e.out.vec[PIndex(p) + 1][2]>>)
              THEN <<"PartialTraceOK", e.via>>
         ELSE <<"ok", "">>
    [] e.fn = "relations" ->
         \* fixed-point numbers (scale 10^4) for a triple of density matrices r, s, u:
         \* f_rs, f_sr, f_rr, t_rs, t_sr, t_su, t_ru, t_rr, same_rs
         LET x == e.x IN
         IF e.err # "" THEN <<"Raised", e.via>>
         ELSE IF x.f_rs < -TolFx \/ x.f_rs > FxScale + TolFx THEN <<"FidelityRange", e.via>>
         ELSE IF x.f_rs - x.f_sr > TolFx \/ x.f_sr - x.f_rs > TolFx THEN <<"FidelitySymmetric", e.via>>
         ELSE IF x.f_rr < FxScale - TolFx THEN <<"FidelityOfEqualIsOne", e.via>>
         ELSE IF ~x.same_rs /\ x.dist_rs > 100 /\ x.f_rs > FxScale - 1 THEN <<"FidelityOneOnlyIfEqual", e.via>>
         ELSE IF x.t_rs - x.t_sr > TolFx \/ x.t_sr - x.t_rs > TolFx THEN <<"TraceDistSymmetric", e.via>>
         ELSE IF x.t_rs < -TolFx \/ x.t_rs > FxScale + TolFx THEN <<"TraceDistRange", e.via>>
         ELSE IF x.t_rr > TolFx THEN <<"TraceDistOfEqualIsZero", e.via>>
         ELSE IF x.t_ru > x.t_rs + x.t_su + TolFx THEN <<"TraceDistTriangle", e.via>>
         \* Fuchs - van de Graaf in squared form:  (1 - T)^2 <= F <= 1 - T^2   (all x FxScale^2)
         ELSE IF (FxScale - x.t_rs) * (FxScale - x.t_rs) > x.f_rs * FxScale + 4 * FxScale THEN <<"FuchsVanDeGraafLower", e.via>>
         ELSE IF x.f_rs * FxScale > FxScale * FxScale - x.t_rs * x.t_rs + 4 * FxScale THEN <<"FuchsVanDeGraafUpper", e.via>>
         ELSE <<"ok", "">>
    [] OTHER -> <<"HarnessUnknownFn", "">>

Init == tid \in 1..Len(Traces) /\ l = 1 /\ why = "ok" /\ cause = "" /\ failed = FALSE
Next == /\ l <= Len(Events(tid))
        /\ LET v == Verdict(tid, Events(tid)[l]) IN why' = v[1] /\ cause' = v[2] /\ failed' = (failed \/ v[1] # "ok")
        /\ l' = l + 1 /\ tid' = tid
TraceSpec == Init /\ [][Next]_vars
Report ==
  /\ (why # "ok") => PrintT(<<"REJECT", Traces[tid].tid, l - 1, why, cause>>)
  /\ (~failed /\ l = Len(Events(tid)) + 1) => PrintT(<<"DONE", Traces[tid].tid>>)
=============================================================================
