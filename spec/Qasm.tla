-------------------------------- MODULE Qasm --------------------------------
(***************************************************************************)
(* Abstract syntax of the openQASM 2.0 subset graphiq emits, and its       *)
(* STANDARD denotation.                                                    *)
(*   program : [qidx, cidx, defs, prog]                                    *)
(*     qidx : record  quantum register name |-> global qubit (1-based)     *)
(*     cidx : record  classical register name |-> index (1-based)          *)
(*     defs : record  gate name |-> [args, body]; body = sequence of       *)
(*            applications [g, ang, q] over the formal argument names      *)
(*     prog : sequence of statements                                       *)
(*            [k |-> "app", g, ang, q]        gate application              *)
(*            [k |-> "measure", q, c]         measure q -> c                *)
(*            [k |-> "if", c, val, g, ang, q] if (c == val) application     *)
(*            [k |-> "reset", q]                                            *)
(* Built-in gates: U(theta, phi, lambda) with the angles given as          *)
(* multiples of pi/2 (0..3), and CX.  A gate body is applied IN TEXTUAL    *)
(* ORDER.  U(a, b, c) = Rz(b) Ry(a) Rz(c): Rz(c) acts first.               *)
(***************************************************************************)
EXTENDS Ensemble, TLC

RzWord(k) == CASE k = 0 -> <<>> [] k = 1 -> <<"P">> [] k = 2 -> <<"Z">> [] k = 3 -> <<"PD">>
\* Ry(pi/2) = H Z (Z acts first): X -> -Z, Z -> X ; Ry(pi) = Y up to phase ; Ry(3 pi/2) = Z H
RyWord(k) == CASE k = 0 -> <<>> [] k = 1 -> <<"Z", "H">> [] k = 2 -> <<"Y">> [] k = 3 -> <<"H", "Z">>
\* word applied left to right (first element acts first)
UWord(ang) == RzWord(ang[3]) \o RyWord(ang[1]) \o RzWord(ang[2])

RECURSIVE ApplyWordE(_, _, _)
ApplyWordE(E, word, q) ==
  IF word = <<>> THEN E ELSE ApplyWordE(MapGroups(E, LAMBDA G : Gate1(G, Head(word), q)), Tail(word), q)

\* expand an application into primitive applications (U, CX) on actual qubits, in textual order
RECURSIVE Expand(_, _, _)
Expand(P, app, fuel) ==
  IF app.g \in {"U", "CX"} THEN <<app>>
  ELSE IF fuel = 0 \/ app.g \notin DOMAIN P.defs THEN <<[g |-> "UNDEFINED", ang |-> <<>>, q |-> app.q]>>
  ELSE LET d == P.defs[app.g]
           bind(name) == app.q[CHOOSE i \in DOMAIN d.args : d.args[i] = name]
           inst(b) == [g |-> b.g, ang |-> b.ang, q |-> [i \in DOMAIN b.q |-> bind(b.q[i])]]
           RECURSIVE Go(_)
           Go(k) == IF k > Len(d.body) THEN <<>> ELSE Expand(P, inst(d.body[k]), fuel - 1) \o Go(k + 1)
       IN IF Len(d.args) # Len(app.q) THEN <<[g |-> "ARITY", ang |-> <<>>, q |-> app.q]>> ELSE Go(1)

WellFormedPrim(pr) == pr.g \in {"U", "CX"} /\ (pr.g = "U" => Len(pr.ang) = 3 /\ \A i \in 1..3 : pr.ang[i] \in 0..3)
ApplyPrim(P, E, pr) ==
  IF pr.g = "U" THEN ApplyWordE(E, UWord(pr.ang), P.qidx[pr.q[1]])
  ELSE MapGroups(E, LAMBDA G : Gate2(G, "CNOT", P.qidx[pr.q[1]], P.qidx[pr.q[2]]))
RECURSIVE ApplyPrims(_, _, _)
ApplyPrims(P, E, prims) == IF prims = <<>> THEN E ELSE ApplyPrims(P, ApplyPrim(P, E, Head(prims)), Tail(prims))
AppOf(s) == [g |-> s.g, ang |-> s.ang, q |-> s.q]
ProgramWellFormed(P) ==
  \A k \in DOMAIN P.prog : LET s == P.prog[k] IN
    /\ s.k \in {"app", "measure", "if", "reset"}
    /\ (s.k \in {"app", "if"} => \A j \in DOMAIN Expand(P, AppOf(s), 4) : WellFormedPrim(Expand(P, AppOf(s), 4)[j]))
    /\ (s.k \in {"app", "if"} => \A j \in DOMAIN s.q : s.q[j] \in DOMAIN P.qidx)
    /\ (s.k \in {"measure", "reset"} => s.q \in DOMAIN P.qidx)
    /\ (s.k \in {"measure", "if"} => s.c \in DOMAIN P.cidx)

\* all final (ensemble) states of running the program from |0..0> in textual order, over every measurement outcome
RECURSIVE QFinals(_, _, _, _)
QFinals(P, k, E, creg) ==
  IF k > Len(P.prog) THEN {E}
  ELSE LET s == P.prog[k] IN
    CASE s.k = "app" -> QFinals(P, k + 1, ApplyPrims(P, E, Expand(P, AppOf(s), 4)), creg)
      [] s.k = "measure" ->
           LET obs == ZObs(NEns(E), P.qidx[s.q]) IN
           UNION {QFinals(P, k + 1, PostE(E, obs, m), [creg EXCEPT ![P.cidx[s.c]] = m])
                  : m \in AllowedOutcomesE(E, obs, 2)}
      [] s.k = "if" ->
           IF creg[P.cidx[s.c]] = s.val
           THEN QFinals(P, k + 1, ApplyPrims(P, E, Expand(P, AppOf(s), 4)), creg)
           ELSE QFinals(P, k + 1, E, creg)
      [] s.k = "reset" ->
           \* reset = measure in Z (any possible outcome), then flip to |0>
           LET q == P.qidx[s.q] obs == ZObs(NEns(E), q) IN
           UNION {QFinals(P, k + 1,
                          IF m = 1 THEN MapGroups(PostE(E, obs, m), LAMBDA G : Gate1(G, "X", q)) ELSE PostE(E, obs, m),
                          creg)
                  : m \in AllowedOutcomesE(E, obs, 2)}
QSem(P, nq) == QFinals(P, 1, Pure(ZeroGroup(nq)), [c \in 1..Cardinality(DOMAIN P.cidx) |-> 0])
=============================================================================
