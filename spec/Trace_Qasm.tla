------------------------------ MODULE Trace_Qasm ------------------------------
(***************************************************************************)
(* C14: one trace = one circuit with everything exported / re-imported     *)
(* from it.  Fields:                                                       *)
(*   src        circuit record (+ order) of the original                   *)
(*   qasm       parsed openQASM text of to_openqasm() (Qasm.tla syntax)    *)
(*   qasm_again TRUE iff a second export produced the identical text       *)
(*   from_qasm  circuit record of from_openqasm(text)   (or err)           *)
(*   json_again, from_json  likewise for to_json / from_json               *)
(* Clauses: QasmDenotes, QasmRoundTrip, JsonRoundTrip (same registers,     *)
(* same expanded operation sequence on every quantum wire, attributes      *)
(* agree with the wires), CompiledSame, Deterministic.                     *)
(***************************************************************************)
EXTENDS Qasm, Metrics, Json, IOUtils
Traces == JsonDeserialize(IOEnv.TRACE_FILE)
VARIABLES tid, l, why, cause, failed
vars == <<tid, l, why, cause, failed>>

RECURSIVE RunOp(_, _, _, _)
RunOp(E, op, j, m) ==
  IF j > NGates(op) THEN E
  ELSE LET kind == ExecGate(op, j) IN
       RunOp(IF kind \in MeasuringKinds THEN ApplyMeasuring(E, kind, op.q, m) ELSE ApplyUnitary(E, kind, op.q),
             op, j + 1, m)
RECURSIVE Finals(_, _, _)
Finals(c, k, E) ==
  IF k > Len(c.order) THEN {E}
  ELSE LET op == c.ops[c.order[k]] IN
       IF op.kind \in MeasuringKinds
       THEN UNION {Finals(c, k + 1, RunOp(E, op, 1, m)) : m \in Outcomes(E, op.q, 2)}
       ELSE Finals(c, k + 1, RunOp(E, op, 1, 0))
Sem(c) == Finals(c, 1, Pure(ZeroGroup(c.nq)))

\* expanded content of every quantum wire: elementary kinds with their qubits and classical register
QuantumWires(c) == {"p" \o ToString(i) : i \in 0..(c.np - 1)} \cup {"e" \o ToString(i) : i \in 0..(c.ne - 1)}
ItemCont(c, it) == [kind |-> ItemKind(c, it), q |-> c.ops[it[1]].q, c |-> c.ops[it[1]].c]
ExpContents(c) == [w \in QuantumWires(c) |-> [k \in DOMAIN ExpWire(c, w) |-> ItemCont(c, ExpWire(c, w)[k])]]
SameCircuit(a, b) == a.np = b.np /\ a.ne = b.ne /\ a.nc = b.nc /\ ExpContents(a) = ExpContents(b)

\* the attributes compilers read (register / control / target and their types) agree with the wires the op sits on
AttrsAgree(c) == \A k \in DOMAIN c.ops : c.ops[k].attr_q = c.ops[k].q

Steps == <<"Deterministic", "QasmParses", "QasmDenotes", "QasmImports", "QasmRoundTrip", "QasmCompiledSame",
           "JsonImports", "JsonRoundTrip", "JsonAttrs", "JsonCompiledSame">>

Check(t, step) ==
  LET T == Traces[t] IN
  CASE step = "Deterministic" -> T.qasm_again /\ T.json_again
    [] step = "QasmParses" -> T.qasm.err = "" /\ ProgramWellFormed(T.qasm)
    \* (wide circuits - many registers, to exercise multi-digit register names - are judged structurally only:
    \*  their 2^n-element groups are out of reach, T.wide skips the semantic clauses)
    [] step = "QasmDenotes" -> T.wide \/ T.qasm.err # "" \/ ~ProgramWellFormed(T.qasm) \/ QSem(T.qasm, T.src.nq) = Sem(T.src)
    [] step = "QasmImports" -> T.from_qasm.err = ""
    [] step = "QasmRoundTrip" -> T.from_qasm.err # "" \/ SameCircuit(T.src, T.from_qasm)
    [] step = "QasmCompiledSame" -> T.from_qasm.err # "" \/ (AttrsAgree(T.from_qasm) /\ (T.wide \/ Sem(T.from_qasm) = Sem(T.src)))
    [] step = "JsonImports" -> T.from_json.err = ""
    [] step = "JsonRoundTrip" -> T.from_json.err # "" \/ SameCircuit(T.src, T.from_json)
    [] step = "JsonAttrs" -> T.from_json.err # "" \/ AttrsAgree(T.from_json)
    [] step = "JsonCompiledSame" -> T.wide \/ T.from_json.err # "" \/ Sem(T.from_json) = Sem(T.src)

CauseOf(t, step) ==
  LET T == Traces[t] IN
  IF step \in {"QasmImports"} THEN T.from_qasm.err
  ELSE IF step \in {"JsonImports"} THEN T.from_json.err
  ELSE IF step = "QasmParses" THEN T.qasm.err
  ELSE ""

Init == tid \in 1..Len(Traces) /\ l = 1 /\ why = "ok" /\ cause = "" /\ failed = FALSE
Next == /\ l <= Len(Steps)
        /\ LET ok == Check(tid, Steps[l]) IN
             /\ why' = IF ok THEN "ok" ELSE Steps[l]
             /\ cause' = IF ok THEN "" ELSE CauseOf(tid, Steps[l])
             /\ failed' = (failed \/ ~ok)
        /\ l' = l + 1 /\ tid' = tid
TraceSpec == Init /\ [][Next]_vars
Report ==
  /\ (why # "ok") => PrintT(<<"REJECT", Traces[tid].tid, l - 1, why, cause>>)
  /\ (~failed /\ l = Len(Steps) + 1) => PrintT(<<"DONE", Traces[tid].tid>>)
=============================================================================
