------------------------------ MODULE MetricLog ------------------------------
(***************************************************************************)
(* Extension X09: what a metric object remembers (metrics.py, MetricBase   *)
(* and the composite Metrics).  State of one metric: the number of         *)
(* evaluations so far and the log; every log_steps-th evaluated value is   *)
(* appended to the log.  The composite evaluates its members in order      *)
(* (each member counts and logs for itself), returns the weighted sum and  *)
(* logs that sum by its own counter.                                       *)
(***************************************************************************)
EXTENDS Naturals, Integers, Sequences
Fresh == [inc |-> 0, log |-> <<>>]
\* one evaluation that produced value v, on a metric that logs every k-th value
Eval(m, k, v) == [inc |-> m.inc + 1, log |-> IF (m.inc + 1) % k = 0 THEN Append(m.log, v) ELSE m.log]
LogShape(m, k) == Len(m.log) = m.inc \div k
RECURSIVE Dot(_, _)
Dot(w, v) == IF w = <<>> THEN 0 ELSE Head(w) * Head(v) + Dot(Tail(w), Tail(v))
=============================================================================
