------------------------------ MODULE Trace_Noise ------------------------------
(***************************************************************************)
(* C06: one trace = one circuit with a noise assignment, compiled by the   *)
(* density-matrix backend and by the stabilizer-mixture backend with noise *)
(* simulation on, plus the noiseless variants (zero strength, empty map,   *)
(* noise simulation switched off).                                         *)
(*   circ.ops[k].noise : sequence (one entry per elementary gate of the    *)
(*        op in LISTED order; for two-qubit gates: control, target) of     *)
(*        [m |-> "none" | "dep" | "pauli" | "loss", p |-> <<n, d>>,        *)
(*         letter |-> 0..3, after |-> BOOLEAN]                             *)
(* Verdict clauses (what the property states, on the FINAL results):       *)
(*   PSD, TraceOK (dm trace and mixture weight = product of the survival   *)
(*   probabilities), BackendsAgree (equal Pauli vectors, hence equal       *)
(*   fidelity with every pure stabilizer target), NoiselessOK.             *)
(* The spec's own noisy run (noise placed before / after the gate as       *)
(* annotated) is compared too and reported as information only.            *)
(***************************************************************************)
EXTENDS CircuitRun, Tableau, TLC, Json, IOUtils
Traces == JsonDeserialize(IOEnv.TRACE_FILE)
VARIABLES tid, l, why, cause, failed
vars == <<tid, l, why, cause, failed>>

Rat(x) == Norm(x[1], x[2])
ApplyNoise(E, nz, q) ==
  CASE nz.m = "none" -> E
    [] nz.m = "dep" -> Depolarize(E, q, Rat(nz.p))
    [] nz.m = "pauli" -> PauliError(E, q, nz.letter)
    [] nz.m = "loss" -> Loss(E, Rat(nz.p))
Survival(nz) == IF nz.m = "loss" THEN RSub(ROne, Rat(nz.p)) ELSE ROne
LossProduct(c) ==
  LET items == UNION {{<<k, j>> : j \in DOMAIN c.ops[k].noise} : k \in DOMAIN c.ops} IN
  FoldSet(LAMBDA it, acc : RMul(acc, Survival(c.ops[it[1]].noise[it[2]])), ROne, items)

\* forced outcome rule on an ensemble
Forced(E, q, setting) == LET A == AllowedOutcomesE(E, ZObs(NEns(E), q), setting) IN CHOOSE m \in A : TRUE

\* run one op (all its elementary gates, last listed first), with or without noise
\* NAMED DEVIATION (as implemented by the stabilizer-mixture backend): every branch of the mixture is measured on
\* its own, takes its own outcome under the forcing rule, and keeps its weight
MeasurePerBranch(E, kind, q, setting) ==
  MergeTagged({[t |-> b.g, w |-> b.w,
                g |-> (CHOOSE x \in ApplyMeasuring(Pure(b.g), kind, q, Forced(Pure(b.g), q[1], setting)) : TRUE).g]
               : b \in E})
RECURSIVE RunOpN(_, _, _, _, _)
RunOpN(E, op, j, setting, noisy) ==
  IF j > NGates(op) THEN E
  ELSE LET kind == ExecGate(op, j)
           idx == NGates(op) + 1 - j                      \* index of this gate in the listed order
           E1 == IF kind \in MeasuringKinds
                 THEN (IF noisy = "perbranch" THEN MeasurePerBranch(E, kind, op.q, setting)
                       ELSE ApplyMeasuring(E, kind, op.q, Forced(E, op.q[1], setting)))
                 ELSE ApplyUnitary(E, kind, op.q)
       IN
       IF noisy = "off" \/ kind \in MeasuringKinds THEN RunOpN(E1, op, j + 1, setting, noisy)
       ELSE IF Len(op.q) = 1 THEN
            LET nz == op.noise[idx] IN
            RunOpN(IF nz.after THEN ApplyNoise(E1, nz, op.q[1])
                   ELSE (IF kind \in MeasuringKinds THEN E1 ELSE ApplyUnitary(ApplyNoise(E, nz, op.q[1]), kind, op.q)),
                   op, j + 1, setting, noisy)
       ELSE \* two-qubit gate: control noise op.noise[1], target noise op.noise[2], each before or after
            LET nc == op.noise[1] nt == op.noise[2]
                pre == ApplyNoise(ApplyNoise(E, IF nc.after THEN [nc EXCEPT !.m = "none"] ELSE nc, op.q[1]),
                                  IF nt.after THEN [nt EXCEPT !.m = "none"] ELSE nt, op.q[2])
                mid == ApplyUnitary(pre, kind, op.q)
                post == ApplyNoise(ApplyNoise(mid, IF nc.after THEN nc ELSE [nc EXCEPT !.m = "none"], op.q[1]),
                                   IF nt.after THEN nt ELSE [nt EXCEPT !.m = "none"], op.q[2])
            IN RunOpN(post, op, j + 1, setting, noisy)
RECURSIVE RunAll(_, _, _, _, _)
RunAll(c, k, E, setting, noisy) ==
  IF k > Len(c.order) \/ E = {} THEN E ELSE RunAll(c, k + 1, RunOpN(E, c.ops[c.order[k]], 1, setting, noisy), setting, noisy)
Final(c, setting, noisy) == RunAll(c, 1, Pure(ZeroGroup(c.nq)), setting, noisy)

MixValid(o) == \A k \in DOMAIN o.branches : TClause(o.branches[k].tab) = "ok"
MixEns(o) ==
  MergeTagged({[t |-> k, g |-> TGroup(o.branches[k].tab), w |-> Norm(o.branches[k].w[1], o.branches[k].w[2])]
               : k \in DOMAIN o.branches})
ObsErr(o) == o.err # ""
ObsBad(o) == IF o.kind = "pv" THEN o.bad # "" ELSE IF o.kind = "mix" THEN ~MixValid(o) ELSE TClause(o) # "ok"
\* Pauli-vector entry of an observation
EnsOfObs(o) == IF o.kind = "mix" THEN MixEns(o) ELSE Pure(TGroup(o))
PVo(o, p) == IF o.kind = "pv" THEN <<o.vec[PIndex(p) + 1][1], o.vec[PIndex(p) + 1][2]>> ELSE PV(EnsOfObs(o), p)
ObsEq(o1, o2, n) == \A p \in AllStrings(n) : REq(PVo(o1, p), PVo(o2, p))
ObsIs(o, E, n) == \A p \in AllStrings(n) : REq(PVo(o, p), PV(E, p))

Steps == <<"DmRuns", "MixRuns", "PSD", "TraceOKdm", "TraceOKmix", "BackendsAgree",
           "NoiselessZeroStrength", "NoiselessEmptyMap", "NoiselessSwitchOff", "InfoNoisySemantics">>

Check(t, step) ==
  LET T == Traces[t] c == T.circ n == c.nq IN
  CASE step = "DmRuns" -> ~ObsErr(T.dm) /\ ~ObsBad(T.dm)
    [] step = "MixRuns" -> ~ObsErr(T.mix) /\ ~ObsBad(T.mix)
    [] step = "PSD" -> ObsErr(T.dm) \/ T.dm_psd
    [] step = "TraceOKdm" -> ObsErr(T.dm) \/ ObsBad(T.dm) \/ REq(PVo(T.dm, IdP(n)), LossProduct(c))
    [] step = "TraceOKmix" -> ObsErr(T.mix) \/ ObsBad(T.mix) \/ REq(PVo(T.mix, IdP(n)), LossProduct(c))
    [] step = "BackendsAgree" -> ObsErr(T.dm) \/ ObsErr(T.mix) \/ ObsBad(T.dm) \/ ObsBad(T.mix) \/ ObsEq(T.dm, T.mix, n)
    [] step \in {"NoiselessZeroStrength", "NoiselessEmptyMap", "NoiselessSwitchOff"} ->
         LET vs == IF step = "NoiselessZeroStrength" THEN T.nl_zero
                   ELSE IF step = "NoiselessEmptyMap" THEN T.nl_empty ELSE T.nl_off
             E0 == Final(c, T.setting, "off") IN
         \A k \in DOMAIN vs : ~ObsErr(vs[k]) /\ ~ObsBad(vs[k]) /\ ObsIs(vs[k], E0, n)
    [] step = "InfoNoisySemantics" -> TRUE

\* what kind of circuit this is, for attributing a rejection: measurements present? which noise models?
Has(c, m) == \E k \in DOMAIN c.ops : \E j \in DOMAIN c.ops[k].noise : c.ops[k].noise[j].m = m
ShapeOf(c) ==
  (IF \E k \in DOMAIN c.ops : c.ops[k].kind \in MeasuringKinds THEN "meas" ELSE "nomeas")
  \o (IF Has(c, "dep") THEN "+dep" ELSE "") \o (IF Has(c, "pauli") THEN "+pauli" ELSE "") \o (IF Has(c, "loss") THEN "+loss" ELSE "")
CauseOf(t, step) ==
  LET T == Traces[t] IN
  IF step = "DmRuns" THEN (IF ObsErr(T.dm) THEN T.dm.err ELSE "bad-observation") \o ":" \o ShapeOf(T.circ)
  ELSE IF step = "MixRuns" THEN (IF ObsErr(T.mix) THEN T.mix.err ELSE "bad-observation") \o ":" \o ShapeOf(T.circ)
  ELSE IF step \in {"BackendsAgree", "TraceOKmix"} /\ ~ObsErr(T.mix) /\ ~ObsBad(T.mix)
          /\ ObsIs(T.mix, Final(T.circ, T.setting, "perbranch"), T.circ.nq)
          /\ ~ObsIs(T.mix, Final(T.circ, T.setting, "on"), T.circ.nq)
       THEN "mixture-measures-per-branch"
  ELSE ShapeOf(T.circ)

Info(t) ==
  LET T == Traces[t] c == T.circ IN
  IF ObsErr(T.dm) \/ ObsBad(T.dm) THEN "skip"
  ELSE IF ObsIs(T.dm, Final(c, T.setting, "on"), c.nq) THEN "noisy-semantics-as-annotated" ELSE "noisy-semantics-deviates"

Init == tid \in 1..Len(Traces) /\ l = 1 /\ why = "ok" /\ cause = "" /\ failed = FALSE
Next == /\ l <= Len(Steps)
        /\ LET ok == Check(tid, Steps[l]) IN
             /\ why' = IF ok THEN "ok" ELSE Steps[l]
             /\ cause' = IF ok THEN "" ELSE CauseOf(tid, Steps[l])
             /\ failed' = (failed \/ ~ok)
        /\ l' = l + 1 /\ tid' = tid
TraceSpec == Init /\ [][Next]_vars
Report ==
  /\ (why # "ok") => PrintT(<<"REJECT", Traces[tid].tid, l - 1, why, cause>>)
  /\ (l = Len(Steps) + 1) => PrintT(<<"INFO", Traces[tid].tid, 0, Info(tid)>>)
  /\ (~failed /\ l = Len(Steps) + 1) => PrintT(<<"DONE", Traces[tid].tid>>)
=============================================================================
