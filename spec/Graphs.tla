------------------------------- MODULE Graphs -------------------------------
(***************************************************************************)
(* Simple graphs on vertices 1..n as functions [Pairs(n) -> BOOLEAN]       *)
(* (a pair is <<u, v>> with u < v).  Local complementation, relabelling,   *)
(* isomorphism, and the LC orbit as a fixpoint.                            *)
(***************************************************************************)
EXTENDS Naturals, Sequences, FiniteSets, FiniteSetsExt

Pairs(n) == {<<u, v>> \in (1..n) \X (1..n) : u < v}
Adj(G, u, v) == IF u < v THEN G[<<u, v>>] ELSE IF v < u THEN G[<<v, u>>] ELSE FALSE
Nbrs(G, n, w) == {x \in 1..n : Adj(G, w, x)}
\* from a sequence of edges <<u, v>> (any orientation, 1-based)
FromEdges(n, edges) ==
  LET S == {IF edges[k][1] < edges[k][2] THEN <<edges[k][1], edges[k][2]>> ELSE <<edges[k][2], edges[k][1]>>
            : k \in DOMAIN edges}
  IN [e \in Pairs(n) |-> e \in S]
EdgesWellFormed(n, edges) ==
  \A k \in DOMAIN edges : /\ Len(edges[k]) = 2 /\ edges[k][1] \in 1..n /\ edges[k][2] \in 1..n /\ edges[k][1] # edges[k][2]
\* from an adjacency matrix (sequence of rows); SymmetricSimple must hold
FromAdj(n, m) == [e \in Pairs(n) |-> m[e[1]][e[2]] = 1]
SymmetricSimple(n, m) ==
  /\ Len(m) = n
  /\ \A i \in 1..n : Len(m[i]) = n /\ m[i][i] = 0 /\ \A j \in 1..n : m[i][j] \in {0, 1} /\ m[i][j] = m[j][i]
EdgeSetOf(G, n) == {{e[1], e[2]} : e \in {x \in Pairs(n) : G[x]}}

\* local complementation at w: toggle exactly the pairs of neighbours of w
LocalComp(G, n, w) == [e \in Pairs(n) |-> IF Adj(G, w, e[1]) /\ Adj(G, w, e[2]) THEN ~G[e] ELSE G[e]]
RECURSIVE LCSeq(_, _, _, _)
LCSeq(G, n, seq, k) == IF k > Len(seq) THEN G ELSE LCSeq(LocalComp(G, n, seq[k]), n, seq, k + 1)

\* orbit under local complementation, by fixpoint
RECURSIVE OrbitFrom(_, _, _)
OrbitFrom(n, frontier, seen) ==
  LET next == {LocalComp(G, n, w) : G \in frontier, w \in 1..n} \ seen IN
  IF next = {} THEN seen ELSE OrbitFrom(n, next, seen \cup next)
Orbit(G, n) == OrbitFrom(n, {G}, {G})

\* relabelling by a permutation p (sequence: vertex v becomes p[v]): edge (p(u), p(v)) iff edge (u, v)
IsPerm(n, p) == Len(p) = n /\ {p[v] : v \in 1..n} = 1..n
Relabel(G, n, p) ==
  LET inv == [x \in 1..n |-> CHOOSE v \in 1..n : p[v] = x] IN
  [e \in Pairs(n) |-> Adj(G, inv[e[1]], inv[e[2]])]
IsIsoBy(G, H, n, p) == IsPerm(n, p) /\ \A e \in Pairs(n) : G[e] = Adj(H, p[e[1]], p[e[2]])
Perms(n) == {p \in [1..n -> 1..n] : {p[v] : v \in 1..n} = 1..n}
Isomorphic(G, H, n) ==
  /\ Cardinality({e \in Pairs(n) : G[e]}) = Cardinality({e \in Pairs(n) : H[e]})
  /\ \E p \in Perms(n) : \A e \in Pairs(n) : G[e] = Adj(H, p[e[1]], p[e[2]])

RECURSIVE ReachG(_, _, _, _)
ReachG(G, n, frontier, seen) ==
  LET next == UNION {Nbrs(G, n, v) : v \in frontier} \ seen IN
  IF next = {} THEN seen ELSE ReachG(G, n, next, seen \cup next)
Connected(G, n) == n <= 1 \/ ReachG(G, n, {1}, {1}) = 1..n
=============================================================================
