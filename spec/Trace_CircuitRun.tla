-------------------------- MODULE Trace_CircuitRun --------------------------
(***************************************************************************)
(* Role J for C01 (and the compile legs of C02, C06, C10, C13, C20):       *)
(* one trace = one call of a real compiler on one circuit; one event per   *)
(* elementary operation the compile loop executed, carrying the operation  *)
(* (kind, global qubits, classical register), a copy of the classical      *)
(* registers and the projected state after it; a final "done" event        *)
(* carries the returned state.  TLC infers which circuit operation was     *)
(* executed and which measurement outcome was drawn.                       *)
(*                                                                         *)
(* Clauses: OrderOK, StateOK, OutcomeAllowed, CregOK, AllOpsExecuted,      *)
(* FinalStateOK, RecordOK, Raised, ObsInvalid.                             *)
(***************************************************************************)
EXTENDS CircuitRun, Tableau, TLC, Json, IOUtils

Traces == JsonDeserialize(IOEnv.TRACE_FILE)

VARIABLES tid, l, why, failed, prog, ens, creg
vars == <<tid, l, why, failed, prog, ens, creg>>

Events(t) == Traces[t].events
Circ(t) == Traces[t].circ

\* observed mixtures: sequence of [w |-> <<num, den>>, tab |-> T observation]
MixValid(o) == \A k \in DOMAIN o.branches : TClause(o.branches[k].tab) = "ok"
MixEns(o) ==
  MergeTagged({[t |-> k, g |-> TGroup(o.branches[k].tab), w |-> Norm(o.branches[k].w[1], o.branches[k].w[2])]
               : k \in DOMAIN o.branches})

ObsClause(o) ==
  IF o.err # "" THEN "Raised"
  ELSE IF o.kind = "T" THEN (IF TClause(o) = "ok" THEN "ok" ELSE "ObsInvalid" \o TClause(o))
  ELSE IF o.kind = "pv" THEN (IF o.bad = "" THEN "ok" ELSE "ObsInvalid")
  ELSE IF o.kind = "mix" THEN (IF MixValid(o) THEN "ok" ELSE "ObsInvalidBranch")
  ELSE "HarnessUnknownObs"

\* does the observed state equal the spec state?  (only called when ObsClause = "ok")
ObsMatches(E, o) ==
  CASE o.kind = "T" -> E = Pure(TGroup(o))
    [] o.kind = "pv" -> IF E = {} THEN PVAllZero(o.n, o.vec) ELSE PVMatches(E, o.n, o.vec)
    [] o.kind = "mix" ->
         LET n == Circ(tid).nq IN
         \A p \in AllStrings(n) : REq(PV(E, p), PV(MixEns(o), p))

InitEns(t) ==
  IF Len(Traces[t].init) = 0 THEN Pure(ZeroGroup(Circ(t).nq))
  ELSE Pure(GenGroup(Traces[t].init, Circ(t).nq))

Candidates(c, pr, e) ==
  {id \in DOMAIN c.ops :
     /\ CanProgress(c, pr, id)
     /\ ExecGate(c.ops[id], pr[id] + 1) = e.kind
     /\ c.ops[id].q = e.q
     /\ (e.kind \in MeasuringKinds => c.ops[id].c = e.c)}

CregUnchangedExcept(old, new, c) ==
  /\ Len(new) = Len(old)
  /\ \A k \in DOMAIN old : k # c => new[k] = old[k]

\* verdict and successor for an "exec" event: [why, ens, prog, creg]
ExecStep(c, pr, E, cr, e, setting) ==
  LET cands == Candidates(c, pr, e) IN
  IF cands = {} THEN [why |-> "OrderOK", ens |-> E, prog |-> pr, creg |-> cr]
  ELSE
    LET id == CHOOSE x \in cands : TRUE
        pr2 == [pr EXCEPT ![id] = @ + 1]
        oc == ObsClause(e.obs)
    IN
    IF oc # "ok" THEN [why |-> oc, ens |-> E, prog |-> pr2, creg |-> cr]
    ELSE IF e.kind \notin MeasuringKinds THEN
      LET E2 == ApplyUnitary(E, e.kind, e.q) IN
      [why |-> IF ~ObsMatches(E2, e.obs) THEN "StateOK"
               ELSE IF ~CregUnchangedExcept(cr, e.creg, 0) THEN "CregOK" ELSE "ok",
       ens |-> E2, prog |-> pr2, creg |-> cr]
    ELSE
      LET poss == {m \in 0..1 : PossibleE(E, MeasObs(E, e.q), m)}
          M == {m \in poss : ObsMatches(ApplyMeasuring(E, e.kind, e.q, m), e.obs)}
          MA == M \cap Outcomes(E, e.q, setting)
          rec == IF e.c \in DOMAIN e.creg THEN e.creg[e.c] ELSE -1
          m2 == IF rec \in MA THEN rec ELSE IF MA # {} THEN CHOOSE m \in MA : TRUE
                ELSE IF M # {} THEN CHOOSE m \in M : TRUE ELSE 0
      IN
      [why |-> IF M = {} THEN "StateOK"
               ELSE IF MA = {} THEN "OutcomeAllowed"
               ELSE IF rec \notin MA \/ ~CregUnchangedExcept(cr, e.creg, e.c) THEN "CregOK"
               ELSE "ok",
       ens |-> ApplyMeasuring(E, e.kind, e.q, m2), prog |-> pr2, creg |-> SetCreg(cr, e.c, m2)]

DoneStep(c, pr, E, cr, e) ==
  LET oc == ObsClause(e.obs) IN
  [why |-> IF ~AllDone(c, pr) THEN "AllOpsExecuted"
           ELSE IF oc # "ok" THEN oc
           ELSE IF ~ObsMatches(E, e.obs) THEN "FinalStateOK"
           ELSE IF e.creg # cr THEN "RecordOK"
           ELSE "ok",
   ens |-> E, prog |-> pr, creg |-> cr]

Init ==
  /\ tid \in 1..Len(Traces)
  /\ l = 1 /\ why = "ok" /\ failed = FALSE
  /\ prog = [id \in DOMAIN Circ(tid).ops |-> 0]
  /\ ens = InitEns(tid)
  /\ creg = [k \in 1..Circ(tid).nc |-> 0]

Next ==
  /\ why = "ok"
  /\ l <= Len(Events(tid))
  /\ LET e == Events(tid)[l]
         r == IF e.ev = "exec" THEN ExecStep(Circ(tid), prog, ens, creg, e, Traces[tid].setting)
              ELSE IF e.ev = "raised" THEN [why |-> "Raised", ens |-> ens, prog |-> prog, creg |-> creg]
              ELSE DoneStep(Circ(tid), prog, ens, creg, e)
     IN /\ why' = r.why /\ ens' = r.ens /\ prog' = r.prog /\ creg' = r.creg
        /\ failed' = (failed \/ r.why # "ok")
  /\ l' = l + 1 /\ tid' = tid

TraceSpec == Init /\ [][Next]_vars

Cause == IF l = 1 THEN "init" ELSE LET e == Events(tid)[l - 1] IN IF e.ev = "exec" THEN e.kind ELSE e.ev

Report ==
  /\ (why # "ok") => PrintT(<<"REJECT", Traces[tid].tid, l - 1, why, Cause>>)
  /\ (~failed /\ l = Len(Events(tid)) + 1) => PrintT(<<"DONE", Traces[tid].tid>>)
=============================================================================
