---------------------------- MODULE MC_Registers ----------------------------
(***************************************************************************)
(* Role M / G for X03: all call histories of length <= MaxLen from the     *)
(* empty table, single- and multi-qubit.  WellFormedInv; sizes never       *)
(* shrink and registers never disappear (action property Monotone).        *)
(***************************************************************************)
EXTENDS Registers, TLC, Json
CONSTANTS MaxLen, MaxSize
VARIABLES s, hist
vars == <<s, hist>>
Init == /\ \E m \in BOOLEAN : s = RS(<<>>, <<>>, <<>>, m)
        /\ hist = <<>>
Call(name, t, k, size, r) ==
  /\ s' = r[1]
  /\ hist' = Append(hist, [a |-> name, t |-> t, k |-> k, size |-> size, err |-> r[2], ret |-> r[3]])
Next ==
  /\ Len(hist) < MaxLen
  /\ \/ \E t \in Types \cup {"q"}, size \in 0..MaxSize : Call("add", t, 0, size, AddRegister(s, t, size))
     \/ \E t \in Types, k \in 0..2, size \in 1..MaxSize : Call("expand", t, k, size, ExpandRegister(s, t, k, size))
     \/ \E t \in Types, k \in 0..2 : Call("next", t, k, 0, NextRegister(s, t, k))
Spec == Init /\ [][Next]_vars
WellFormedInv == WellFormed(s)
Monotone == [][\A t \in Types : /\ Len(Get(s', t)) >= Len(Get(s, t))
                                /\ \A k \in DOMAIN Get(s, t) : Get(s', t)[k] >= Get(s, t)[k]]_vars
Dump == (Len(hist) = MaxLen) => PrintT(<<"HIST", ToJson([multi |-> s.multi, calls |-> hist])>>)
=============================================================================
