----------------------------- MODULE CircuitRun -----------------------------
(***************************************************************************)
(* Textbook semantics of executing a circuit.                              *)
(*                                                                         *)
(* A circuit is a record                                                   *)
(*   [nq, nc, ops, wires]                                                  *)
(*   ops   : sequence of [kind, q, c, gates] - q = global qubit indices    *)
(*           (photons first, then emitters, 1-based; control before        *)
(*           target), c = classical register (1-based, 0 = none),          *)
(*           gates = the listed one-qubit gate names of a wrapper, or      *)
(*           <<kind>> for every other operation                            *)
(*   wires : record  wire name |-> sequence of op indices (one wire per    *)
(*           quantum and per classical register, as the DAG orders them)   *)
(* Execution state: prog[id] = number of elementary gates of op id done,   *)
(* an ensemble and the classical registers.  An operation may progress     *)
(* when everything before it on each of its wires is finished ("an order   *)
(* consistent with the circuit").  A wrapped list denotes the matrix       *)
(* product of the list, so its LAST listed gate acts first.                *)
(***************************************************************************)
EXTENDS Ensemble

OneQubitKinds == {"Identity", "Hadamard", "Phase", "PhaseDagger", "SigmaX", "SigmaY", "SigmaZ"}
GateName(kind) ==
  CASE kind = "Identity" -> "I" [] kind = "Hadamard" -> "H" [] kind = "Phase" -> "P"
    [] kind = "PhaseDagger" -> "PD" [] kind = "SigmaX" -> "X" [] kind = "SigmaY" -> "Y" [] kind = "SigmaZ" -> "Z"
MeasuringKinds == {"MeasurementZ", "ClassicalCNOT", "ClassicalCZ", "MeasurementCNOTandReset"}
TwoQubitKinds == {"CNOT", "CZ"}
AllKinds == OneQubitKinds \cup TwoQubitKinds \cup MeasuringKinds

NGates(op) == Len(op.gates)
\* the k-th elementary gate EXECUTED of an op (k = 1 first): listed order reversed
ExecGate(op, k) == op.gates[NGates(op) + 1 - k]

WireNames(circ) == DOMAIN circ.wires
OnWire(circ, w, id) == \E k \in DOMAIN circ.wires[w] : circ.wires[w][k] = id
PosOn(circ, w, id) == CHOOSE k \in DOMAIN circ.wires[w] : circ.wires[w][k] = id
Finished(circ, prog, id) == prog[id] = NGates(circ.ops[id])
\* every operation before id on each wire of id is finished
PredsDone(circ, prog, id) ==
  \A w \in WireNames(circ) :
    OnWire(circ, w, id) =>
      \A k \in 1..(PosOn(circ, w, id) - 1) : Finished(circ, prog, circ.wires[w][k])
CanProgress(circ, prog, id) == ~Finished(circ, prog, id) /\ PredsDone(circ, prog, id)
AllDone(circ, prog) == \A id \in DOMAIN circ.ops : Finished(circ, prog, id)

(***************************************************************************)
(* Effect of one elementary operation.                                     *)
(***************************************************************************)
\* non-measuring
ApplyUnitary(ens, kind, q) ==
  IF kind \in OneQubitKinds THEN MapGroups(ens, LAMBDA G : Gate1(G, GateName(kind), q[1]))
  ELSE IF kind = "CNOT" THEN MapGroups(ens, LAMBDA G : Gate2(G, "CNOT", q[1], q[2]))
  ELSE MapGroups(ens, LAMBDA G : Gate2(G, "CZ", q[1], q[2]))

MeasObs(ens, q) == ZObs(NEns(ens), q[1])
\* measuring kinds, for a given outcome m of the Z-measurement of q[1]
ApplyMeasuring(ens, kind, q, m) ==
  LET post == PostE(ens, MeasObs(ens, q), m) IN
  CASE kind = "MeasurementZ" -> post
    [] kind = "ClassicalCNOT" ->
         IF m = 1 THEN MapGroups(post, LAMBDA G : Gate1(G, "X", q[2])) ELSE post
    [] kind = "ClassicalCZ" ->
         IF m = 1 THEN MapGroups(post, LAMBDA G : Gate1(G, "Z", q[2])) ELSE post
    [] kind = "MeasurementCNOTandReset" ->
         IF m = 1
         THEN MapGroups(MapGroups(post, LAMBDA G : Gate1(G, "X", q[2])), LAMBDA G : Gate1(G, "X", q[1]))
         ELSE post

\* outcomes the measurement setting allows (0 / 1 forced unless impossible, 2 = probabilistic)
Outcomes(ens, q, setting) == AllowedOutcomesE(ens, MeasObs(ens, q), setting)

\* all (ensemble, creg) pairs after running the whole circuit from (ens0, creg0), over every order consistent
\* with the wires and every allowed outcome - used by the model-checked lemmas and by C02 / C10 / C15
SetCreg(creg, c, m) == IF c = 0 THEN creg ELSE [creg EXCEPT ![c] = m]
=============================================================================
