------------------------------ MODULE Registers ------------------------------
(***************************************************************************)
(* Extension X03: the register table of a circuit (circuit/register.py,    *)
(* class Register) as a sequential state machine.  State: for each         *)
(* register type "e", "p", "c" the sequence of register sizes, and whether *)
(* registers of more than one qubit are allowed.  Each mutator / query is  *)
(* an operator returning <<next state, error, returned value>>.            *)
(***************************************************************************)
EXTENDS Naturals, Sequences
Types == {"e", "p", "c"}
RS(e, p, c, multi) == [e |-> e, p |-> p, c |-> c, multi |-> multi]
Get(s, t) == CASE t = "e" -> s.e [] t = "p" -> s.p [] t = "c" -> s.c
Put(s, t, v) == CASE t = "e" -> [s EXCEPT !.e = v] [] t = "p" -> [s EXCEPT !.p = v] [] t = "c" -> [s EXCEPT !.c = v]
WellFormed(s) == \A t \in Types : \A k \in DOMAIN Get(s, t) : Get(s, t)[k] >= 1 /\ (s.multi \/ Get(s, t)[k] = 1)
NQuantum(s) == Len(s.e) + Len(s.p)            \* number of quantum REGISTERS

\* add_register(type, size): returns the index (0-based) of the new register
AddRegister(s, t, size) ==
  IF t \notin Types \/ size < 1 \/ (size > 1 /\ ~s.multi) THEN <<s, "ValueError", 0>>
  ELSE <<Put(s, t, Append(Get(s, t), size)), "", Len(Get(s, t))>>
\* expand_register(type, k, new_size), k 0-based: the size may only grow
ExpandRegister(s, t, k, size) ==
  IF t \notin Types \/ (size > 1 /\ ~s.multi) THEN <<s, "ValueError", 0>>
  ELSE IF k + 1 \notin DOMAIN Get(s, t) THEN <<s, "IndexError", 0>>
  ELSE IF size <= Get(s, t)[k + 1] THEN <<s, "ValueError", 0>>
  ELSE <<Put(s, t, [Get(s, t) EXCEPT ![k + 1] = size]), "", 0>>
\* next_register(type, k): the index the next qubit of that register would get = its current size
NextRegister(s, t, k) ==
  IF t \notin Types THEN <<s, "ValueError", 0>>
  ELSE IF k + 1 \notin DOMAIN Get(s, t) THEN <<s, "IndexError", 0>>
  ELSE <<s, "", Get(s, t)[k + 1]>>
=============================================================================
