"""Generates /verif/MANIFEST.json from the table below (python -m engine.manifest)."""
import json
import os

VERIF = os.path.dirname(os.path.dirname(os.path.abspath(__file__)))

CHECKS = {
    # pid: (technique, level text, level note, design ref)
}

BASE_NOTE = ("Trusted: TLC 1.8, the TLA+ modules in /verif/spec, engine/project.py projections and JSON plumbing. "
             "Bounds of the run are written to the evidence file.")


def entry(pid, technique, text, note, ref):
    cmd = f"/venv/bin/python -m engine.check {pid} --tier "
    return {
        "property_id": pid,
        "quick_cmd": cmd + "quick",
        "thorough_cmd": cmd + "thorough",
        "evidence_file": f"/verif/evidence/{pid}.json",
        "replay_cmd_template": f"/venv/bin/python -m engine.check {pid} --replay {{path}}",
        "engine": "tla-trace-judge",
        "level_claimed": {"category": "model_checking", "text": text, "design_ref": ref},
        "level_note": note or BASE_NOTE,
        "technique": technique,
    }


def main():
    from engine.registry import REGISTRY
    props = [json.loads(l)["id"] for l in open(os.path.join(VERIF, "properties.jsonl"))]
    checks = [entry(pid, *REGISTRY[pid]) for pid in props if pid in REGISTRY]
    na = [{"property_id": pid, "reason": "check not built yet (work in progress, see DESIGN.md section 10 build order)"}
          for pid in props if pid not in REGISTRY]
    m = {
        "version": 1,
        "setup_cmd": "cd /verif && /venv/bin/python -m engine.setup",
        "hooks": {
            "guard": "GRAPHIQ_VERIF",
            "enable": "checks import /repo's working tree directly (sys.path) with GRAPHIQ_VERIF=1; observation is by "
                      "subclassing / wrapping public functions, no source hook is needed so far",
            "baseline_off_cmd": "cd /repo && env -u GRAPHIQ_VERIF /venv/bin/python -m pytest -ra -q -p no:cacheprovider "
                                "--timeout=900 --continue-on-collection-errors",
            "source_commits": [],
            "add_only": True,
        },
        "engines": [{
            "name": "tla-trace-judge",
            "path": "/verif/engine",
            "serves_properties": [c["property_id"] for c in checks],
            "kind_free_text": "explicit TLA+ specification (spec/*.tla) model-checked by TLC (role M) and bound to the "
                              "implementation by batched trace validation (role J) and replay of TLC-enumerated states "
                              "into the real code (role G); TLC is always the judge",
        }],
        "checks": checks,
        "not_applicable": na,
        "notes": "See DESIGN.md. Known findings: KNOWN_FINDINGS.jsonl. Exit 2 = machinery failure, never a verdict. "
                 "Extensions of the specification beyond the listed properties (DESIGN.md section 15) run the same way: "
                 "cd /verif && /venv/bin/python -m engine.check X01 .. X09 --tier quick|thorough (evidence/X0n.json). "
                 "Binding demos: /venv/bin/python -m engine.selftest. Input pools chosen by execution coverage: "
                 "engine/covpool.py -> pools/.",
    }
    with open(os.path.join(VERIF, "MANIFEST.json"), "w") as f:
        json.dump(m, f, indent=1)
    print("checks:", [c["property_id"] for c in checks], "n/a:", [n["property_id"] for n in na])


if __name__ == "__main__":
    main()
