"""Confirm a seeded change in a scratch worktree of /repo's HEAD: the demo must fail with the patch and pass without it.
With --suite also run the repository's full test suite with the patch and compare with BASELINE.json stable_pass.
python -m engine.seedconfirm seeded/S-C05-1 [--suite]"""
import json
import os
import subprocess
import sys
import xml.etree.ElementTree as ET


def sh(cmd, **kw):
    return subprocess.run(cmd, shell=True, capture_output=True, text=True, **kw)


def main():
    seed = os.path.abspath(sys.argv[1])
    suite = "--suite" in sys.argv
    name = os.path.basename(seed)
    wt = f"/tmp/confirm-{name}"
    sh(f"git -C /repo worktree remove --force {wt}")
    r = sh(f"git -C /repo worktree add --detach {wt} HEAD")
    assert r.returncode == 0, r.stderr
    res = {}
    try:
        a = sh(f"git -C {wt} apply {seed}/patch.diff")
        res["applies"] = a.returncode == 0
        if not res["applies"]:
            print(name, "patch does not apply", a.stderr[:300])
            return 1
        d1 = sh(f"cd {wt} && cp {seed}/demo.py demo_seeded.py && /venv/bin/python demo_seeded.py", timeout=3600)
        res["demo_with_patch_exit"] = d1.returncode
        res["demo_with_patch_tail"] = (d1.stdout + d1.stderr)[-400:]
        if suite:
            x = f"/tmp/confirm-{name}.xml"
            sh(f"cd {wt} && env -u GRAPHIQ_VERIF /venv/bin/python -m pytest -q -p no:cacheprovider --timeout=900 "
               f"--continue-on-collection-errors --junitxml={x}", timeout=7200)
            stable = set(json.load(open("/root/.vp/BASELINE.json"))["stable_pass"])
            passed = set()
            for tc in ET.parse(x).iter("testcase"):
                if not any(ch.tag in ("failure", "error", "skipped") for ch in tc):
                    passed.add(tc.get("classname") + "::" + tc.get("name"))
            res["stable_failing_with_patch"] = sorted(stable - passed)
        sh(f"git -C {wt} checkout -- .")
        d0 = sh(f"cd {wt} && /venv/bin/python demo_seeded.py", timeout=3600)
        res["demo_without_patch_exit"] = d0.returncode
    finally:
        sh(f"git -C /repo worktree remove --force {wt}")
    out = os.path.join(seed, "confirm.json")
    old = json.load(open(out)) if os.path.exists(out) else {}
    old.update(res)
    json.dump(old, open(out, "w"), indent=1)
    ok = res.get("demo_with_patch_exit") == 1 and res.get("demo_without_patch_exit") == 0 and \
        (not suite or res.get("stable_failing_with_patch") == [])
    print(name, "CONFIRMED" if ok else "NOT CONFIRMED", {k: v for k, v in res.items() if "tail" not in k})
    return 0 if ok else 1


if __name__ == "__main__":
    sys.exit(main())
