"""Running TLC and reading what it printed.

Everything the framework decides is decided by a TLC run started here.  A run is
  * a module under /verif/spec (never copied: cwd is the spec directory),
  * a generated .cfg in a scratch directory under /verif/run,
  * optionally a JSON batch whose path is passed through the environment
    (IOEnv.TRACE_FILE in the trace specs).
The parser only extracts: state counts, printed tuples (PrintT lines that start with
`<<"TAG", ...>>`), invariant violations and errors.  Exit status 2 of the check is
reserved for "TLC did not run to completion" (MachineryError).
"""
from __future__ import annotations

import json
import os
import re
import shutil
import subprocess
import tempfile
import time
from concurrent.futures import ThreadPoolExecutor
from dataclasses import dataclass, field

VERIF = os.path.dirname(os.path.dirname(os.path.abspath(__file__)))
SPEC = os.path.join(VERIF, "spec")
RUN = os.path.join(VERIF, "run")
JAR = "/opt/veriftools/tla/tla2tools.jar:/opt/veriftools/tla/CommunityModules-deps.jar"


class MachineryError(RuntimeError):
    """TLC (or the harness) failed to produce a verdict."""


@dataclass
class TLCResult:
    module: str
    ok: bool                      # ran to completion without error / violation
    generated: int = 0
    distinct: int = 0
    depth: int = 0
    wall: float = 0.0
    violated: list = field(default_factory=list)   # invariant / property names
    prints: list = field(default_factory=list)     # parsed PrintT tuples (python lists)
    raw_tail: str = ""
    coverage: dict = field(default_factory=dict)
    error: str = ""


def scratch(prefix: str) -> str:
    os.makedirs(RUN, exist_ok=True)
    return tempfile.mkdtemp(prefix=prefix + "-", dir=RUN)


def cleanup(path: str) -> None:
    shutil.rmtree(path, ignore_errors=True)


_TUPLE = re.compile(r'^<< ?"[A-Z_]+"')


def _parse_tuple(line: str):
    """<<"REJECT", 3, 7, "GroupOK">>  ->  ["REJECT", 3, 7, "GroupOK"]  (flat tuples of ints/strings only)."""
    body = line.strip()
    if not (body.startswith("<<") and body.endswith(">>")):
        return None
    body = body[2:-2]
    out, i, n = [], 0, len(body)
    while i < n:
        c = body[i]
        if c in " ,":
            i += 1
        elif c == '"':
            j = i + 1
            buf = []
            while j < n and body[j] != '"':
                if body[j] == "\\" and j + 1 < n:
                    buf.append(body[j + 1])
                    j += 2
                else:
                    buf.append(body[j])
                    j += 1
            out.append("".join(buf))
            i = j + 1
        else:
            j = i
            while j < n and body[j] not in ",":
                j += 1
            tok = body[i:j].strip()
            if re.fullmatch(r"-?\d+", tok):
                out.append(int(tok))
            elif tok in ("TRUE", "FALSE"):
                out.append(tok == "TRUE")
            else:
                out.append(tok)
            i = j
    return out


def run_tlc(module: str, cfg: str, *, workdir: str, env: dict | None = None, workers: int = 1,
            timeout: int = 3600, extra: list | None = None, tag: str = "", coverage: bool = False,
            xss: str = "64m", xmx: str = "3g", dfs: bool = False) -> TLCResult:
    """Run TLC on /verif/spec/<module>.tla with the given config text."""
    name = module + (("_" + tag) if tag else "")
    cfg_path = os.path.join(workdir, name + ".cfg")
    with open(cfg_path, "w") as f:
        f.write(cfg)
    meta = os.path.join(workdir, "meta_" + name)
    cmd = ["java", "-XX:+UseParallelGC", "-Xss" + xss, "-Xmx" + xmx]
    if workers == 1:
        cmd += ["-XX:ParallelGCThreads=2", "-XX:CICompilerCount=2"]      # many single-worker JVMs run side by side
    if dfs:
        cmd.append("-Dtlc2.tool.queue.IStateQueue=StateDeque")
    cmd += ["-cp", JAR, "tlc2.TLC", "-workers", str(workers), "-metadir", meta,
            "-noGenerateSpecTE", "-config", cfg_path]
    if coverage:
        cmd += ["-coverage", "1"]
    cmd += list(extra or [])
    cmd.append(os.path.join(SPEC, module + ".tla"))
    e = dict(os.environ)
    e.update(env or {})
    t0 = time.time()
    try:
        for attempt in range(3):
            p = subprocess.run(cmd, cwd=SPEC, env=e, capture_output=True, text=True, timeout=timeout)
            # a JVM that was killed from outside or could not get memory (many JVMs side by side, other jobs on the
            # machine) says nothing about the specification: wait and run the same command again, at most twice
            starved = p.returncode in (-9, 137) or "insufficient memory" in p.stdout + p.stderr \
                or "Cannot allocate memory" in p.stdout + p.stderr or "unable to create native thread" in p.stdout + p.stderr
            if not starved or attempt == 2:
                break
            shutil.rmtree(meta, ignore_errors=True)
            time.sleep(45 * (attempt + 1))
    except subprocess.TimeoutExpired as ex:
        raise MachineryError(f"TLC timeout after {timeout}s on {module} ({tag})") from ex
    finally:
        shutil.rmtree(meta, ignore_errors=True)
    out = p.stdout
    res = TLCResult(module=module, ok=False, wall=time.time() - t0)
    pending = None
    for line in out.splitlines():
        if pending is not None:           # TLC wraps long tuples over several lines
            pending += " " + line.strip()
            if pending.rstrip().endswith(">>"):
                t = _parse_tuple(pending)
                if t:
                    res.prints.append(t)
                pending = None
            continue
        if _TUPLE.match(line):
            if not line.rstrip().endswith(">>"):
                pending = line.strip()
                continue
            t = _parse_tuple(line)
            if t:
                res.prints.append(t)
            continue
        m = re.match(r"(\d+) states generated, (\d+) distinct states found", line)
        if m:
            res.generated, res.distinct = int(m.group(1)), int(m.group(2))
        m = re.match(r"The depth of the complete state graph search is (\d+)", line)
        if m:
            res.depth = int(m.group(1))
        m = re.match(r"Error: Invariant (\S+) is violated", line)
        if m:
            res.violated.append(m.group(1))
        m = re.match(r"Error: Action property (\S+) is violated", line)
        if m:
            res.violated.append(m.group(1))
        if line.startswith("Error: Temporal properties were violated"):
            res.violated.append("TemporalProperty")
        m = re.match(r"Error: The postcondition (\S+)? ?.*(is false|violated)", line)
        if m:
            res.violated.append("POSTCONDITION")
    res.raw_tail = "\n".join(out.splitlines()[-60:])
    finished = "Model checking completed" in out or "Finished in" in out
    has_error = any(ln.startswith("Error:") for ln in out.splitlines()) or "TLC threw an unexpected exception" in out
    if res.violated:
        res.ok = False
    elif has_error or not finished or p.returncode not in (0,):
        # errors that are not property violations are machinery failures
        res.error = res.raw_tail
        raise MachineryError(f"TLC failed on {module} ({tag}) rc={p.returncode}:\n{res.raw_tail}\n{p.stderr[-2000:]}")
    else:
        res.ok = True
    if coverage:
        res.coverage = _parse_coverage(out)
    return res


def _parse_coverage(out: str) -> dict:
    cov = {}
    for line in out.splitlines():
        m = re.match(r"<(\w+) line \d+, col \d+ to line \d+, col \d+ of module (\w+)>: (\d+):(\d+)", line)
        if m:
            cov[m.group(1)] = {"distinct": int(m.group(3)), "taken": int(m.group(4))}
    return cov


def sany(module_path: str) -> bool:
    p = subprocess.run(["java", "-cp", JAR, "tla2sany.SANY", module_path], cwd=SPEC,
                       capture_output=True, text=True)
    return p.returncode == 0 and "Semantic errors" not in p.stdout and "***Parse Error***" not in p.stdout \
        and "Fatal errors" not in p.stdout


def parallel(jobs, max_workers: int = 16):
    """Run callables in threads (each starts its own JVM)."""
    with ThreadPoolExecutor(max_workers=max_workers) as ex:
        futs = [ex.submit(j) for j in jobs]
        return [f.result() for f in futs]


def dump_json(path: str, obj) -> None:
    with open(path, "w") as f:
        json.dump(obj, f, separators=(",", ":"))
