"""Projections: graphiq objects -> JSON observations read by the trace specs (trusted, pure indexing).

Conventions: letters 0 = I, 1 = X, 2 = Z, 3 = Y (x + 2 z); qubits are 1-based in traces;
rationals are {"n": int, "d": int}; every observation record has an "err" field ("" = no error).
"""
from __future__ import annotations

from fractions import Fraction

import numpy as np

INT_LIMIT = 2 ** 30


def _int_matrix(a):
    """-> (list of lists of python ints, bad-reason)"""
    a = np.asarray(a)
    if a.dtype == object or a.dtype.kind not in "iub f".replace(" ", ""):
        return None, "dtype"
    if a.dtype.kind == "f":
        if not np.all(np.isfinite(a)) or not np.all(a == np.round(a)):
            return None, "noninteger"
    if a.size and np.max(np.abs(a)) >= INT_LIMIT:
        return None, "overflow"
    return a.astype(np.int64).tolist(), ""


def err_obs(exc) -> dict:
    return {"err": type(exc).__name__ if isinstance(exc, BaseException) else str(exc)}


def tab_obs(tab) -> dict:
    """CliffordTableau -> raw observation (nothing normalised, so non-binary entries stay visible)."""
    n = int(tab.n_qubits)
    table = np.asarray(tab.table)
    phase = np.asarray(tab.phase)
    iphase = np.asarray(tab.iphase)
    bad = ""
    if table.ndim != 2 or table.shape != (2 * n, 2 * n) or phase.shape != (2 * n,) or iphase.shape != (2 * n,) or n < 1:
        return {"err": "", "n": n, "bad": f"shape table={table.shape} phase={phase.shape} iphase={iphase.shape}",
                "x": [], "z": [], "r": [], "i": []}
    x, b1 = _int_matrix(table[:, :n])
    z, b2 = _int_matrix(table[:, n:])
    r, b3 = _int_matrix(phase)
    i, b4 = _int_matrix(iphase)
    bad = b1 or b2 or b3 or b4
    if bad:
        return {"err": "", "n": n, "bad": bad, "x": [], "z": [], "r": [], "i": []}
    return {"err": "", "n": n, "bad": "", "x": x, "z": z, "r": r, "i": i}


def stab_obs(st) -> dict:
    """StabilizerTableau -> raw observation."""
    n = int(st.n_qubits)
    table = np.asarray(st.table)
    phase = np.asarray(st.phase)
    if table.ndim != 2 or table.shape != (n, 2 * n) or phase.shape != (n,) or n < 1:
        return {"err": "", "n": n, "bad": f"shape table={table.shape} phase={phase.shape}", "x": [], "z": [], "r": []}
    x, b1 = _int_matrix(table[:, :n])
    z, b2 = _int_matrix(table[:, n:])
    r, b3 = _int_matrix(phase)
    bad = b1 or b2 or b3
    if bad:
        return {"err": "", "n": n, "bad": bad, "x": [], "z": [], "r": []}
    return {"err": "", "n": n, "bad": "", "x": x, "z": z, "r": r}


def rows_to_tableau(rows_destab, rows_stab):
    """lists of signed Paulis {"s","p"} -> CliffordTableau (used to load TLC-enumerated tableaux)."""
    from graphiq.backends.stabilizer.clifford_tableau import CliffordTableau
    n = len(rows_stab)
    rows = list(rows_destab) + list(rows_stab)
    table = np.zeros((2 * n, 2 * n), dtype=int)
    phase = np.zeros(2 * n, dtype=int)
    for k, row in enumerate(rows):
        for q, a in enumerate(row["p"]):
            table[k, q] = 1 if a in (1, 3) else 0
            table[k, n + q] = 1 if a in (2, 3) else 0
        phase[k] = row["s"]
    return CliffordTableau(table, phase)


def rat(x, max_den=2 ** 20 * 3 ** 6, tol=1e-9):
    """float -> {"n","d"} exact rational (None if not within tol of a small rational)."""
    f = Fraction(float(x)).limit_denominator(max_den)
    if abs(float(f) - float(x)) > tol or abs(f.numerator) >= INT_LIMIT or f.denominator >= INT_LIMIT:
        return None
    return {"n": f.numerator, "d": f.denominator}


_P1 = [np.eye(2, dtype=complex), np.array([[0, 1], [1, 0]], dtype=complex),
       np.array([[1, 0], [0, -1]], dtype=complex), np.array([[0, -1j], [1j, 0]], dtype=complex)]


def pauli_matrix(letters):
    m = np.array([[1.0 + 0j]])
    for a in letters:
        m = np.kron(m, _P1[a])
    return m


def pauli_vector(rho, n):
    """density matrix -> list of Tr(rho P) over all 4^n strings in base-4 order (first letter most significant).

    Computed by successive single-qubit contractions (no 4^n kron products)."""
    rho = np.asarray(rho, dtype=complex)
    if rho.shape != (2 ** n, 2 ** n):
        return None, f"shape {rho.shape}"
    if not np.allclose(rho, rho.conj().T, atol=1e-9):
        return None, "nonhermitian"
    t = rho.reshape([2] * (2 * n))
    # t indices: i1..in j1..jn ; contract each (i_k, j_k) with P^T to get Tr(rho P)
    cur = t
    for k in range(n):
        # axes: after k contractions, cur has shape [4]*k + [2]*(n-k) + [2]*(n-k)
        nk = n - k
        i_ax = k
        j_ax = k + nk
        stack = []
        for a in range(4):
            # Tr(rho P) = sum_{ij} rho_ij P_ji
            stack.append(np.einsum(cur, list(range(cur.ndim)), _P1[a], [j_ax, i_ax],
                                   [x for x in range(cur.ndim) if x not in (i_ax, j_ax)]))
        cur = np.stack(stack, axis=k)
    vec = cur.reshape(-1)
    if np.max(np.abs(vec.imag)) > 1e-9:
        return None, "complex expectation"
    return vec.real.tolist(), ""


def rows_to_dm(rows):
    """density matrix of the stabilizer state with the given signed generators: prod (1 + (-1)^s P) / 2."""
    n = len(rows[0]["p"])
    rho = np.eye(2 ** n, dtype=complex)
    for r in rows:
        rho = rho @ (np.eye(2 ** n) + (-1) ** r["s"] * pauli_matrix(r["p"])) / 2
    return rho


def pv_obs(rho, n) -> dict:
    """density matrix -> {"err","bad","n","vec":[[num,den]..]} with exact rationals."""
    vec, bad = pauli_vector(rho, n)
    if bad:
        return {"err": "", "bad": bad, "n": n, "vec": []}
    out = []
    for v in vec:
        r = rat(v)
        if r is None:
            return {"err": "", "bad": f"NotRational {v!r}", "n": n, "vec": []}
        out.append([r["n"], r["d"]])
    return {"err": "", "bad": "", "n": n, "vec": out}


def min_eig(rho):
    rho = np.asarray(rho, dtype=complex)
    return float(np.min(np.linalg.eigvalsh((rho + rho.conj().T) / 2)))


def graph_obs(g) -> dict:
    """networkx graph with integer-like nodes -> {"n", "nodes", "edges"} with nodes renumbered 1..n in sorted order."""
    nodes = sorted(g.nodes())
    idx = {v: k + 1 for k, v in enumerate(nodes)}
    edges = sorted(sorted((idx[u], idx[v])) for u, v in g.edges() if u != v)
    return {"n": len(nodes), "edges": [list(e) for e in edges]}


def adj_obs(a) -> dict:
    a = np.asarray(a)
    n = a.shape[0]
    m, bad = _int_matrix(a)
    return {"n": n, "bad": bad, "m": m if not bad else []}
