"""Input pools chosen by execution coverage (not a registered check; run once, result committed under /verif/pools).

  python -m engine.covpool trs  [--n 3000] [--seed 1]      (solver targets, pools/trs_targets.json)
  python -m engine.covpool inv  [--n 8000] [--seed 1]      (stabilizer states for inverse_circuit, pools/inv_states.json)

samples labelled graphs with 5 - 7 vertices, runs the deterministic solver on each under a line tracer restricted to
graphiq/solvers/time_reversed_solver.py, and greedily keeps every graph that executes a line-to-line transition no
earlier graph executed (plus, for transitions seen fewer than six times, up to six graphs).  The pool is only a list
of INPUTS for the drivers (C02, C10): what the solver does with them is judged by the specification as for any target.
"""
from __future__ import annotations

import argparse
import json
import os
import random
import sys
import warnings

VERIF = os.path.dirname(os.path.dirname(os.path.abspath(__file__)))
REPO = os.environ.get("VERIF_REPO", "/repo")
sys.path.insert(0, REPO)
os.environ.setdefault("MPLBACKEND", "Agg")


def arcs_of(graph, fname):
    import networkx as nx
    from graphiq.backends.stabilizer.compiler import StabilizerCompiler
    from graphiq.backends.stabilizer.functions.rep_conversion import get_clifford_tableau_from_graph
    from graphiq.metrics import Infidelity
    from graphiq.solvers.time_reversed_solver import TimeReversedSolver
    from graphiq.state import QuantumState
    seen = set()
    last = {}

    def tracer(frame, event, arg):
        if frame.f_code.co_filename != fname:
            return None
        if event == "call":
            last[id(frame)] = 0
            return tracer
        if event == "line":
            seen.add((frame.f_code.co_name, last.get(id(frame), 0), frame.f_lineno))
            last[id(frame)] = frame.f_lineno
        elif event == "return":
            last.pop(id(frame), None)
        return tracer
    target = QuantumState(get_clifford_tableau_from_graph(graph), rep_type="s")
    comp = StabilizerCompiler()
    comp.measurement_determinism = 1
    solver = TimeReversedSolver(target=target, metric=Infidelity(target), compiler=comp)
    sys.settrace(tracer)
    try:
        solver.solve()
    except Exception:
        seen.add(("<raised>", 0, 0))
    finally:
        sys.settrace(None)
    return seen


def trace_call(fnames, f):
    """line-to-line transitions executed inside the files `fnames` while f() runs"""
    seen = set()
    last = {}

    def tracer(frame, event, arg):
        if frame.f_code.co_filename not in fnames:
            return None
        if event == "call":
            last[id(frame)] = 0
            return tracer
        if event == "line":
            seen.add((frame.f_code.co_name, last.get(id(frame), 0), frame.f_lineno))
            last[id(frame)] = frame.f_lineno
        elif event == "return":
            last.pop(id(frame), None)
        return tracer
    sys.settrace(tracer)
    try:
        f()
    except Exception:
        seen.add(("<raised>", 0, 0))
    finally:
        sys.settrace(None)
    return seen


def inv_pool(n_samples, seed):
    """generating sets of 5 - 7 qubit stabilizer states under which inverse_circuit / clifford_from_stabilizer execute
    transitions that are rare among random states (fallback branches of the synthesis)"""
    sys.path.insert(0, VERIF)
    from engine import stabgen as sg
    import graphiq.backends.stabilizer.functions.stabilizer as fs
    import graphiq.backends.stabilizer.functions.rep_conversion as rc
    import graphiq.backends.stabilizer.functions.linalg as la
    rng = random.Random(seed)
    fnames = {fs.__file__, rc.__file__, la.__file__}
    count, pool = {}, []
    for i in range(n_samples):
        n = rng.choice([5, 6, 6, 7])
        rows = sg.random_state_rows(rng, n)
        st = sg.stabilizer_tableau(rows)

        def call():
            fs.inverse_circuit(st.copy())
            rc.clifford_from_stabilizer(st.copy())
        arcs = trace_call(fnames, call)
        rare = [x for x in arcs if count.get(x, 0) < 4]
        if rare:
            pool.append({"n": n, "rows": rows,
                         "new_transitions": sorted(f"{f}:{p}->{q}" for f, p, q in rare if count.get((f, p, q), 0) == 0),
                         "_arcs": sorted(f"{f}:{p}->{q}" for f, p, q in arcs)})
        for x in arcs:
            count[x] = count.get(x, 0) + 1
    rare_arcs = {f"{f}:{p}->{q}": c for (f, p, q), c in count.items() if c <= max(10, n_samples // 400)}
    for rec in pool:
        rec["rare_transitions"] = sorted(set(rec.pop("_arcs")) & set(rare_arcs))
    out = {"how": f"python -m engine.covpool inv --n {n_samples} --seed {seed}", "sampled": n_samples,
           "transitions_seen": len(count), "rarely_executed": rare_arcs, "states": pool}
    json.dump(out, open(os.path.join(VERIF, "pools", "inv_states.json"), "w"), indent=1)
    print(len(pool), "states kept;", len(count), "transitions;", len(rare_arcs), "executed <= 10 times")


def main():
    import networkx as nx
    import graphiq.solvers.time_reversed_solver as trs
    ap = argparse.ArgumentParser()
    ap.add_argument("which", choices=["trs", "inv"])
    ap.add_argument("--n", type=int, default=3000)
    ap.add_argument("--seed", type=int, default=1)
    a = ap.parse_args()
    warnings.simplefilter("ignore")
    if a.which == "inv":
        return inv_pool(a.n, a.seed)
    rng = random.Random(a.seed)
    fname = trs.__file__
    count, pool = {}, []
    for i in range(a.n):
        n = rng.choice([5, 6, 6, 6, 7])
        g = nx.gnp_random_graph(n, rng.choice([0.25, 0.35, 0.5, 0.65]), seed=rng.randrange(2 ** 31))
        if any(d == 0 for _, d in g.degree()):
            continue
        arcs = arcs_of(g, fname)
        rare = [x for x in arcs if count.get(x, 0) < 6]
        if rare:
            pool.append({"n": n, "edges": sorted([min(u, v), max(u, v)] for u, v in g.edges()),
                         "new_transitions": sorted(f"{f}:{p}->{q}" for f, p, q in rare if count.get((f, p, q), 0) == 0),
                         "_arcs": sorted(f"{f}:{p}->{q}" for f, p, q in arcs)})
        for x in arcs:
            count[x] = count.get(x, 0) + 1
    rare_arcs = {f"{f}:{p}->{q}": c for (f, p, q), c in count.items() if c <= max(10, a.n // 400)}
    for rec in pool:
        rec["rare_transitions"] = sorted(set(rec.pop("_arcs")) & set(rare_arcs))
    out = {"how": f"python -m engine.covpool trs --n {a.n} --seed {a.seed} (repo HEAD at the time: see git log)",
           "sampled": a.n, "transitions_seen": len(count), "rarely_executed": rare_arcs, "graphs": pool}
    os.makedirs(os.path.join(VERIF, "pools"), exist_ok=True)
    json.dump(out, open(os.path.join(VERIF, "pools", "trs_targets.json"), "w"), indent=1)
    print(len(pool), "graphs kept;", len(count), "transitions;", len(rare_arcs), "executed <= 10 times")


if __name__ == "__main__":
    main()
