"""Mutation screening of the checks (not a registered check): small syntactic mutants of the functions a property is
anchored in are applied one at a time in a scratch worktree of /repo; the property's quick check is run against it
(VERIF_REPO / VERIF_OUT, nothing under /verif or /repo is touched); undetected mutants are then tried against the
repository's own stable tests, and what survives both is listed for inspection (equivalent mutant or a gap).

  python -m engine.mutate C07 graphiq/backends/stabilizer/functions/clifford.py [func ...] --n 12 --seed 1
"""
from __future__ import annotations

import argparse
import ast
import json
import os
import random
import shutil
import subprocess
import sys
import time

VERIF = os.path.dirname(os.path.dirname(os.path.abspath(__file__)))
CMP = {ast.Eq: "!=", ast.NotEq: "==", ast.Lt: "<=", ast.LtE: "<", ast.Gt: ">=", ast.GtE: ">"}
BIN = {ast.Add: "-", ast.Sub: "+", ast.BitXor: "|", ast.BitOr: "^", ast.BitAnd: "|", ast.Mult: "+", ast.Mod: "+"}


def sites(src, funcs):
    """-> list of (lineno, col, end_col, replacement, description) single-line token replacements inside `funcs`."""
    tree = ast.parse(src)
    lines = src.splitlines()
    out = []
    for fn in ast.walk(tree):
        if not isinstance(fn, (ast.FunctionDef,)) or (funcs and fn.name not in funcs):
            continue
        for node in ast.walk(fn):
            if isinstance(node, ast.Compare) and len(node.ops) == 1 and type(node.ops[0]) in CMP:
                l, r = node.left, node.comparators[0]
                if l.end_lineno == r.lineno:
                    seg = lines[l.end_lineno - 1][l.end_col_offset:r.col_offset]
                    op = seg.strip()
                    if op in ("==", "!=", "<", "<=", ">", ">="):
                        c0 = l.end_col_offset + seg.index(op)
                        out.append((l.end_lineno, c0, c0 + len(op), CMP[type(node.ops[0])], f"{fn.name}: {op} -> {CMP[type(node.ops[0])]}"))
            elif isinstance(node, ast.BinOp) and type(node.op) in BIN:
                l, r = node.left, node.right
                if l.end_lineno == r.lineno:
                    seg = lines[l.end_lineno - 1][l.end_col_offset:r.col_offset]
                    op = seg.strip()
                    if op in ("+", "-", "^", "|", "&", "*", "%"):
                        c0 = l.end_col_offset + seg.index(op)
                        out.append((l.end_lineno, c0, c0 + len(op), BIN[type(node.op)], f"{fn.name}: {op} -> {BIN[type(node.op)]}"))
            elif isinstance(node, ast.BoolOp) and len(node.values) == 2:
                l, r = node.values
                if l.end_lineno == r.lineno:
                    seg = lines[l.end_lineno - 1][l.end_col_offset:r.col_offset]
                    op = seg.strip()
                    if op in ("and", "or"):
                        c0 = l.end_col_offset + seg.index(op)
                        new = "or" if op == "and" else "and"
                        out.append((l.end_lineno, c0, c0 + len(op), new, f"{fn.name}: {op} -> {new}"))
            elif isinstance(node, ast.Constant) and isinstance(node.value, bool) and node.lineno == node.end_lineno:
                out.append((node.lineno, node.col_offset, node.end_col_offset, str(not node.value), f"{fn.name}: {node.value} -> {not node.value}"))
            elif isinstance(node, ast.Constant) and type(node.value) is int and node.value in (0, 1, 2) and node.lineno == node.end_lineno:
                new = {0: "1", 1: "0", 2: "1"}[node.value]
                out.append((node.lineno, node.col_offset, node.end_col_offset, new, f"{fn.name}: const {node.value} -> {new}"))
            elif isinstance(node, ast.UnaryOp) and isinstance(node.op, ast.Not) and node.lineno == node.operand.lineno:
                out.append((node.lineno, node.col_offset, node.operand.col_offset, "", f"{fn.name}: drop 'not'"))
    # de-duplicate
    seen, res = set(), []
    for s in out:
        if s[:3] not in seen:
            seen.add(s[:3])
            res.append(s)
    return res


def sh(cmd, **kw):
    return subprocess.run(cmd, shell=True, capture_output=True, text=True, **kw)


def main():
    ap = argparse.ArgumentParser()
    ap.add_argument("pid")
    ap.add_argument("file")
    ap.add_argument("funcs", nargs="*")
    ap.add_argument("--n", type=int, default=10)
    ap.add_argument("--seed", type=int, default=1)
    ap.add_argument("--tests", default="tests")
    ap.add_argument("--out", default=os.path.join(VERIF, "mutation"))
    a = ap.parse_args()
    rng = random.Random(a.seed)
    tree = f"/tmp/mutwt-{a.pid}-{os.getpid()}"
    out = f"/tmp/mutout-{a.pid}-{os.getpid()}"
    assert sh(f"git -C /repo worktree add -q --detach {tree} HEAD").returncode == 0
    os.makedirs(out, exist_ok=True)
    path = os.path.join(tree, a.file)
    src = open(path).read()
    all_sites = sites(src, set(a.funcs))
    chosen = rng.sample(all_sites, min(a.n, len(all_sites)))
    env = dict(os.environ, VERIF_REPO=tree, VERIF_OUT=out, MPLBACKEND="Agg")
    results = []
    try:
        for (ln, c0, c1, new, desc) in chosen:
            lines = src.splitlines(True)
            old_line = lines[ln - 1]
            lines[ln - 1] = old_line[:c0] + new + old_line[c1:]
            open(path, "w").write("".join(lines))
            r = {"file": a.file, "line": ln, "desc": desc, "old": old_line.strip()[:120], "new": lines[ln - 1].strip()[:120]}
            if sh(f"/venv/bin/python -m py_compile {path}").returncode != 0:
                r["verdict"] = "does-not-compile"
            else:
                t0 = time.time()
                p = sh(f"cd {VERIF} && /venv/bin/python -m engine.check {a.pid} --tier quick", env=env, timeout=3600)
                r["check_exit"] = p.returncode
                r["check_s"] = round(time.time() - t0)
                viol = [l for l in p.stdout.splitlines() if l.startswith("VIOLATION")]
                r["first"] = viol[0][:200] if viol else (p.stderr[-200:] if p.returncode == 2 else "")
                if p.returncode in (1, 2):
                    r["verdict"] = "detected" if p.returncode == 1 else "detected(harness-crash)"
                else:
                    from . import suite
                    okn, missing = suite.run(tree, a.tests.split())
                    r["stable_tests_run"] = okn + len(missing)
                    r["stable_tests_failing"] = missing[:5]
                    if missing:
                        r["verdict"] = "killed-by-repo-tests"
                        results.append(r)
                        print(json.dumps(r), flush=True)
                        open(path, "w").write(src)
                        continue
                    r["verdict"] = "undetected"
            results.append(r)
            print(json.dumps(r), flush=True)
            open(path, "w").write(src)
    finally:
        sh(f"git -C /repo worktree remove --force {tree}")
        shutil.rmtree(out, ignore_errors=True)
    os.makedirs(a.out, exist_ok=True)
    fn = os.path.join(a.out, f"{a.pid}-{os.path.basename(a.file)}-{a.seed}.json")
    json.dump(results, open(fn, "w"), indent=1)
    print("SUMMARY", a.pid, a.file, {v: sum(1 for r in results if r["verdict"] == v) for v in {r["verdict"] for r in results}})


if __name__ == "__main__":
    sys.exit(main())
