"""Batched trace validation (role J) and judgement of replayed spec states (role G).

A batch is a JSON array of traces {"tid": int, ..., "events": [...]}; the trace spec chooses `tid` in
its Init, steps through the events with a TOTAL verdict (a mismatch sets `why` to the failing
clause instead of disabling the action) and prints, from an always-true invariant,

    <<"REJECT", tid, step, clause, cause>>     for a failing event of a trace
    <<"DONE", tid>>                              when the whole trace was consumed without a failure
    <<"INFO", tid, step, text>>                  information that is not a verdict

`validate` shards a batch over several JVMs, checks that every trace got a verdict (otherwise the
harness is broken: MachineryError) and returns the rejections.
"""
from __future__ import annotations

import os
from dataclasses import dataclass, field

from . import tlc

TRACE_CFG = """SPECIFICATION TraceSpec
INVARIANT Report
CHECK_DEADLOCK FALSE
"""


@dataclass
class Verdicts:
    module: str
    n_traces: int = 0
    n_events: int = 0
    rejects: list = field(default_factory=list)   # dicts: tid, step, clause, cause
    infos: list = field(default_factory=list)
    states: int = 0
    transitions: int = 0
    wall: float = 0.0


def _weight(t):
    return 1 + len(t.get("events", []))


def shard(traces, k):
    """Greedy balance by number of events."""
    k = max(1, min(k, len(traces)))
    bins = [[] for _ in range(k)]
    load = [0] * k
    for t in sorted(traces, key=_weight, reverse=True):
        i = load.index(min(load))
        bins[i].append(t)
        load[i] += _weight(t)
    return [b for b in bins if b]


def validate(module: str, traces: list, *, workdir: str, shards: int = 16, timeout: int = 3600,
             cfg_extra: str = "", env: dict | None = None, xmx: str = "3g", dfs: bool = False,
             mode: str = "exists") -> Verdicts:
    v = Verdicts(module=module, n_traces=len(traces), n_events=sum(len(t.get("events", [])) for t in traces))
    if not traces:
        return v
    tids = [t["tid"] for t in traces]
    if len(set(tids)) != len(tids):
        raise tlc.MachineryError("duplicate tids in batch for " + module)
    parts = shard(traces, shards)
    jobs = []
    for i, part in enumerate(parts):
        path = os.path.join(workdir, f"{module}_batch{i}.json")
        # "meta" is for the python side (replays, known-finding matching); TLC never sees it
        tlc.dump_json(path, [{k: v for k, v in t.items() if k != "meta"} for t in part])
        e = {"TRACE_FILE": path}
        e.update(env or {})

        def job(i=i, e=e):
            return tlc.run_tlc(module, TRACE_CFG + cfg_extra, workdir=workdir, env=e, workers=1,
                               timeout=timeout, tag=f"s{i}", xmx=xmx, dfs=dfs)
        jobs.append(job)
    results = tlc.parallel(jobs, max_workers=min(16, len(jobs)))
    done, rej = set(), {}
    for r in results:
        v.states += r.distinct
        v.transitions += r.generated
        v.wall = max(v.wall, r.wall)
        if r.violated:
            raise tlc.MachineryError(f"{module}: trace spec invariant violated {r.violated}\n{r.raw_tail}")
        for p in r.prints:
            if p[0] == "REJECT":
                tid = p[1]
                rec = {"tid": tid, "step": p[2], "clause": p[3], "cause": p[4] if len(p) > 4 else ""}
                rej.setdefault(tid, {})[(rec["step"], rec["clause"])] = rec
            elif p[0] == "DONE":
                done.add(p[1])
            elif p[0] == "INFO":
                v.infos.append({"tid": p[1], "step": p[2], "text": p[3]})
    missing = [t for t in tids if t not in done and t not in rej]
    if missing:
        raise tlc.MachineryError(f"{module}: no verdict for traces {missing[:10]} (of {len(missing)})")
    # a trace is accepted iff SOME spec behaviour consumes it completely
    # (star traces report every failing event; linear traces stop at the first one)
    # mode "forall": the trace spec branches over choices the property quantifies over (measurement
    # outcomes); every branch must be accepted, so any REJECT counts
    v.rejects = sorted((r for t, d in rej.items() if (mode == "forall" or t not in done) for r in d.values()),
                       key=lambda r: (r["tid"], r["step"]))
    return v
