#!/bin/bash
# usage: engine/seedcollect.sh C07 2 [extra check ids]   - collect a sub-agent's change from /tmp/w<round>-<prop>
set -e
P=$1; R=$2; shift 2
D=/verif/seeded/S-$P-$R
W=/tmp/w$R-$P
mkdir -p $D
git -C $W diff > $D/patch.diff
cp $W/demo_seeded.py $D/demo.py
cd /verif
/venv/bin/python -m engine.seedconfirm seeded/S-$P-$R | tail -1
/venv/bin/python -m engine.seedtest seeded/S-$P-$R $P "$@" 2>&1 | tail -4
