"""MANIFEST.setup_cmd: parse every spec module with SANY and byte-compile the engine (offline)."""
import compileall
import glob
import os
import sys

from . import tlc


def main():
    ok = True
    for p in sorted(glob.glob(os.path.join(tlc.SPEC, "*.tla"))):
        if not tlc.sany(p):
            print("SANY failed:", p)
            ok = False
    ok = compileall.compile_dir(os.path.join(tlc.VERIF, "engine"), quiet=1) and ok
    ok = compileall.compile_dir(os.path.join(tlc.VERIF, "drivers"), quiet=1) and ok
    os.makedirs(tlc.RUN, exist_ok=True)
    print("setup", "ok" if ok else "FAILED")
    return 0 if ok else 1


if __name__ == "__main__":
    sys.exit(main())
