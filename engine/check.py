"""Entry point of every registered check:

    cd /verif && /venv/bin/python -m engine.check C07 --tier quick

Exit 0: property held on everything explored (known findings are printed as KNOWN-FINDING lines);
exit 1: at least one `VIOLATION property=<id> replay=<path>` line was printed;
exit 2: the machinery failed (TLC crash, harness bug) - never a verdict.
The graphiq that is imported is /repo's current working tree (sys.path), nothing is cached.
"""
from __future__ import annotations

import argparse
import hashlib
import importlib
import json
import os
import random
import sys
import time
import traceback

VERIF = os.path.dirname(os.path.dirname(os.path.abspath(__file__)))
REPO = os.environ.get("VERIF_REPO", "/repo")
# evidence/ and replays/ go under /verif unless a seeded-change experiment redirects them (engine.seedtest)
OUT = os.environ.get("VERIF_OUT") or os.path.dirname(os.path.dirname(os.path.abspath(__file__)))
os.environ.setdefault("GRAPHIQ_VERIF", "1")
os.environ.setdefault("MPLBACKEND", "Agg")
for _v in ("OMP_NUM_THREADS", "OPENBLAS_NUM_THREADS", "MKL_NUM_THREADS"):
    os.environ.setdefault(_v, "1")        # tiny matrices: BLAS thread pools only burn system time
if REPO not in sys.path:
    sys.path.insert(0, REPO)

from . import tlc, trace, findings  # noqa: E402


class Ctx:
    def __init__(self, pid: str, tier: str, seed: int):
        self.pid, self.tier, self.seed = pid, tier, seed
        self.quick = tier == "quick"
        self.t0 = time.time()
        self.rng = random.Random(seed)
        self.workdir = tlc.scratch(pid)
        self.states = 0
        self.transitions = 0
        self.traces_validated = 0
        self.events_validated = 0
        self.mc_runs = []          # per TLC model-checking run
        self.judge_runs = []       # per batch
        self.samples = []
        self.violations = []
        self.known_hits = {}
        self.infos = {}
        self.assumptions = []
        self.extra = {}
        self.action_coverage = {}
        self.known = findings.load(pid)
        import glob
        for old in glob.glob(os.path.join(OUT, "replays", pid + "-*.json")):
            os.remove(old)          # replays are rewritten by every run of this property's check
        self.sig_counts = {}
        self.suppressed = 0

    # ---------------------------------------------------------------- role M
    def mc(self, module: str, cfg: str, *, tag: str = "", workers: int = 16, timeout: int = 7200,
           coverage: bool = False, expect_distinct: int | None = None, xmx: str = "8g", extra=None):
        r = tlc.run_tlc(module, cfg, workdir=self.workdir, workers=workers, timeout=timeout, tag=tag,
                        coverage=coverage, xmx=xmx, extra=extra)
        self.states += r.distinct
        self.transitions += r.generated
        run = {"module": module, "tag": tag, "distinct": r.distinct, "generated": r.generated,
               "depth": r.depth, "wall_s": round(r.wall, 1), "violated": r.violated}
        self.mc_runs.append(run)
        if coverage and r.coverage:
            self.action_coverage[module + (":" + tag if tag else "")] = r.coverage
            for act, c in r.coverage.items():
                if c["taken"] == 0:          # vacuity guard: an action of the model that no behaviour ever took
                    self.info(f"model action never taken in this bounded run: {module}.{act}")
        if r.violated:
            path = self.write_replay({"kind": "model", "module": module, "tag": tag, "cfg": cfg,
                                      "violated": r.violated, "tlc_tail": r.raw_tail})
            self.violation(f"spec {module} violates {r.violated}", path)
        if expect_distinct is not None and r.distinct != expect_distinct and not r.violated:
            raise tlc.MachineryError(f"{module}[{tag}]: expected {expect_distinct} distinct states, got {r.distinct}")
        return r

    # ---------------------------------------------------------------- role J / G
    def judge(self, module: str, traces: list, *, label: str = "", shards: int = 16, timeout: int = 7200,
              cfg_extra: str = "", env=None, xmx: str = "3g", sample: int = 1, mode: str = "exists"):
        if not traces:
            return None
        v = trace.validate(module, traces, workdir=self.workdir, shards=shards, timeout=timeout,
                           cfg_extra=cfg_extra, env=env, xmx=xmx, mode=mode)
        self.states += v.states
        self.transitions += v.transitions
        self.traces_validated += v.n_traces
        self.events_validated += v.n_events
        self.judge_runs.append({"module": module, "label": label, "traces": v.n_traces, "events": v.n_events,
                                "rejected": len(v.rejects), "states": v.states, "wall_s": round(v.wall, 1)})
        for i in v.infos:
            self.infos[i["text"]] = self.infos.get(i["text"], 0) + 1
        by_tid = {t["tid"]: t for t in traces}
        rejected = {r["tid"] for r in v.rejects}
        for t in traces:
            if t["tid"] not in rejected and sample > 0 and len(self.samples) < 6:
                self.samples.append({"label": label, "accepted_trace": _shorten(t)})
                sample -= 1
        for r in v.rejects:
            t = by_tid[r["tid"]]
            self.reject(label, r, t)
        return v

    def reject(self, label: str, r: dict, t: dict):
        """A rejected trace: known finding or violation."""
        entry = findings.match(self.known, r, t)
        if entry is not None:
            key = entry["id"]
            if key not in self.known_hits:
                print(f"KNOWN-FINDING: property={self.pid} {entry['what']}", flush=True)
                self.known_hits[key] = 0
            self.known_hits[key] += 1
            return
        sig = (label, r["clause"], r.get("cause", ""))
        self.sig_counts[sig] = self.sig_counts.get(sig, 0) + 1
        if self.sig_counts[sig] > 2:          # same clause and cause: counted, not re-reported
            self.suppressed += 1
            return
        path = self.write_replay({"kind": "trace", "label": label, "clause": r["clause"], "cause": r.get("cause", ""),
                                  "step": r["step"], "trace": t})
        self.violation(f"{label}: clause {r['clause']} {r.get('cause', '')} at step {r['step']} "
                       f"meta={json.dumps(t.get('meta', {}))[:300]}", path)

    def violation(self, text: str, path: str):
        self.violations.append({"what": text, "replay": path})
        if len(self.violations) <= 25:
            print(f"VIOLATION property={self.pid} replay={path}  # {text}", flush=True)

    def write_replay(self, obj: dict) -> str:
        obj = dict(obj)
        obj.update({"property": self.pid, "seed": self.seed, "tier": self.tier})
        blob = json.dumps(obj, sort_keys=True, default=str)
        h = hashlib.sha1(blob.encode()).hexdigest()[:12]
        d = os.path.join(OUT, "replays")
        os.makedirs(d, exist_ok=True)
        path = os.path.join(d, f"{self.pid}-{h}.json")
        with open(path, "w") as f:
            f.write(blob)
        return path

    def info(self, text: str, n: int = 1):
        self.infos[text] = self.infos.get(text, 0) + n

    # ---------------------------------------------------------------- evidence
    def finish(self) -> int:
        wall = time.time() - self.t0
        cov = {
            "states": self.states,
            "transitions": self.transitions,
            "traces_validated_against_impl": self.traces_validated,
            "events_validated": self.events_validated,
            "samples": self.samples[:6] or [{"note": "no accepted trace in this run"}],
            "model_checking_runs": self.mc_runs,
            "trace_batches": self.judge_runs,
            "action_coverage": self.action_coverage,
            "known_findings_hit": self.known_hits,
            "information": self.infos,
            "violations": self.violations[:25],
            "violation_signatures": {" | ".join(k): n for k, n in self.sig_counts.items()},
        }
        cov.update(self.extra)
        ev = {
            "property_id": self.pid,
            "tier": self.tier,
            "seed": self.seed,
            "level": "model_checking",
            "coverage": cov,
            "assumptions": self.assumptions + [
                "TLC 1.8 and the TLA+ modules under /verif/spec are the judge",
                "engine/project.py projections (array indexing, Tr(rho P), wire extraction) and JSON plumbing are trusted",
            ],
            "wall_s": round(wall, 2),
            "violations": len(self.violations) + self.suppressed,
        }
        os.makedirs(os.path.join(OUT, "evidence"), exist_ok=True)
        with open(os.path.join(OUT, "evidence", self.pid + ".json"), "w") as f:
            json.dump(ev, f, indent=1, default=str)
        tlc.cleanup(self.workdir)
        status = "FAIL" if self.violations else "PASS"
        print(f"{status} property={self.pid} tier={self.tier} seed={self.seed} states={self.states} "
              f"traces={self.traces_validated} events={self.events_validated} violations={len(self.violations)} "
              f"known={sum(self.known_hits.values())} wall={wall:.0f}s", flush=True)
        return 1 if self.violations else 0


def _shorten(t, limit=1500):
    s = json.dumps(t, default=str)
    if len(s) <= limit:
        return t
    return {"tid": t.get("tid"), "meta": t.get("meta"), "n_events": len(t.get("events", [])),
            "head": s[:limit] + "..."}


def main(argv=None) -> int:
    ap = argparse.ArgumentParser()
    ap.add_argument("pid")
    ap.add_argument("--tier", default=os.environ.get("VERIF_TIER", "quick"), choices=["quick", "thorough"])
    ap.add_argument("--seed", type=int, default=int(os.environ.get("VERIF_SEED", "20261002")))
    ap.add_argument("--replay", default=None)
    a = ap.parse_args(argv)
    os.environ.setdefault("PYTHONHASHSEED", "0")
    ctx = Ctx(a.pid, a.tier, a.seed)
    try:
        mod = importlib.import_module("drivers." + a.pid.lower())
        if a.replay:
            mod.replay(ctx, a.replay)
        else:
            # the library has been used before the judged calls are made, as in any real process (engine/circuits.py)
            from engine import circuits as _cz
            _cz.process_neighbours()
            mod.run(ctx)
        return ctx.finish()
    except tlc.MachineryError as ex:
        print(f"MACHINERY-FAILURE property={a.pid}: {ex}", file=sys.stderr, flush=True)
        return 2
    except Exception:
        traceback.print_exc()
        print(f"MACHINERY-FAILURE property={a.pid}: unexpected exception in harness", file=sys.stderr, flush=True)
        return 2


if __name__ == "__main__":
    sys.exit(main())
