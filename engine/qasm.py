"""An independent tokenizer for the openQASM 2.0 subset graphiq emits (trusted projection: text -> statement records
of spec/Qasm.tla).  It knows nothing about graphiq's gate names; it only reads the text."""
from __future__ import annotations

import math
import re


class QasmError(Exception):
    pass


def _angle(expr: str) -> int:
    e = expr.strip()
    if not re.fullmatch(r"[0-9pi+\-*/(). ]+", e):
        raise QasmError("AngleSyntax:" + e)
    val = eval(e.replace("pi", repr(math.pi)), {"__builtins__": {}}, {})
    k = round(val / (math.pi / 2))
    if abs(val - k * math.pi / 2) > 1e-9:
        raise QasmError("NonCliffordAngle:" + e)
    return k % 4


def _split_args(s: str):
    return [a.strip() for a in s.split(",") if a.strip()]


def _qarg(a: str) -> str:
    m = re.fullmatch(r"([A-Za-z_][A-Za-z0-9_]*)(\[0\])?", a.strip())
    if not m:
        raise QasmError("QubitArg:" + a)
    return m.group(1)


def _application(stmt: str):
    """'name(params) a, b'  ->  {"g","ang","q"}"""
    m = re.fullmatch(r"([A-Za-z_][A-Za-z0-9_]*)\s*(\(([^)]*)\))?\s*(.*)", stmt.strip(), re.S)
    if not m:
        raise QasmError("Application:" + stmt)
    name, params, args = m.group(1), m.group(3), m.group(4)
    ang = [_angle(p) for p in _split_args(params)] if params is not None and params.strip() else []
    return {"g": name, "ang": ang, "q": [_qarg(a) for a in _split_args(args)]}


def parse(text: str) -> dict:
    """-> {"err", "qidx", "cidx", "defs", "prog"}"""
    try:
        return _parse(text)
    except QasmError as ex:
        return {"err": str(ex), "qidx": {}, "cidx": {}, "defs": {}, "prog": []}


def _parse(text: str) -> dict:
    src = re.sub(r"//[^\n]*", "", text)
    m = re.match(r"\s*OPENQASM\s+2\.0\s*;", src)
    if not m:
        raise QasmError("Header")
    src = src[m.end():]
    defs = {}
    # gate definitions
    pat = re.compile(r"gate\s+([A-Za-z_][A-Za-z0-9_]*)\s*(\(([^)]*)\))?\s*([^{]*)\{([^}]*)\}", re.S)
    for gm in pat.finditer(src):
        name, params, args, body = gm.group(1), gm.group(3), gm.group(4), gm.group(5)
        if params is not None and params.strip():
            # parameterised definitions are outside the Clifford subset; keep the name so that a use is an error
            defs[name] = {"args": _split_args(args), "body": [{"g": "PARAMETERISED", "ang": [], "q": []}]}
            continue
        stmts = [s.strip() for s in body.split(";") if s.strip()]
        defs[name] = {"args": _split_args(args), "body": [_application(s) for s in stmts]}
    src = pat.sub("", src)
    qregs, cregs, prog = [], [], []
    for stmt in [s.strip() for s in src.split(";")]:
        if not stmt:
            continue
        m = re.fullmatch(r"qreg\s+([A-Za-z_][A-Za-z0-9_]*)\s*\[\s*(\d+)\s*\]", stmt)
        if m:
            if m.group(2) != "1":
                raise QasmError("RegisterSize:" + stmt)
            qregs.append(m.group(1))
            continue
        m = re.fullmatch(r"creg\s+([A-Za-z_][A-Za-z0-9_]*)\s*\[\s*(\d+)\s*\]", stmt)
        if m:
            cregs.append(m.group(1))
            continue
        if stmt.startswith("barrier"):
            continue
        if stmt.startswith("import"):
            continue
        m = re.fullmatch(r"measure\s+(\S+)\s*->\s*(\S+)", stmt)
        if m:
            prog.append({"k": "measure", "q": _qarg(m.group(1)), "c": _qarg(m.group(2)), "g": "", "ang": [], "val": 0})
            continue
        m = re.fullmatch(r"if\s*\(\s*([A-Za-z_][A-Za-z0-9_]*)\s*==\s*(\d+)\s*\)\s*(.*)", stmt, re.S)
        if m:
            app = _application(m.group(3))
            prog.append({"k": "if", "c": m.group(1), "val": int(m.group(2)), "g": app["g"], "ang": app["ang"], "q": app["q"]})
            continue
        m = re.fullmatch(r"reset\s+(\S+)", stmt)
        if m:
            prog.append({"k": "reset", "q": _qarg(m.group(1)), "c": "", "g": "", "ang": [], "val": 0})
            continue
        app = _application(stmt)
        prog.append({"k": "app", "g": app["g"], "ang": app["ang"], "q": app["q"], "c": "", "val": 0})
    # the textbook qubit numbering: photons first, then emitters, each by register index
    def key(name):
        m = re.fullmatch(r"([pe])(\d+)", name)
        if not m:
            raise QasmError("RegisterName:" + name)
        return (0 if m.group(1) == "p" else 1, int(m.group(2)))
    qidx = {name: i + 1 for i, name in enumerate(sorted(qregs, key=key))}
    cidx = {name: i + 1 for i, name in enumerate(sorted(cregs, key=lambda s: int(s[1:])))}
    return {"err": "", "qidx": qidx, "cidx": cidx, "defs": defs, "prog": prog}
