"""Writes seeded/<id>/meta.json from the table below + detection.json / confirm.json, and prints the DESIGN.md table."""
import json
import os

VERIF = os.path.dirname(os.path.dirname(os.path.abspath(__file__)))
SEEDS = {
 "S-C01-1": ("C01", "z_measurement_gate accepts a stabilizer row as the anticommuting generator only if its index is > n (was >= n): "
             "the first stabilizer generator is never chosen", "the first stabilizer generator (initially paired with photon 0) is the "
             "ONLY one with an X / Y on the measured qubit (H p0; MZ p0 - the same on photon 1 is fine): the measurement is "
             "treated as deterministic, nothing collapses, the forced setting is ignored"),
 "S-C02-1": ("C02", "TimeReversedSolver._single_out_emitter returns early when there is one emitter, skipping the basis change "
             "and sign repair before a time-reversed measurement",
             "a disconnected target without isolated vertices whose components are contiguous in the emission order and that "
             "needs exactly one emitter (smallest: two Bell pairs); connected graphs and 2-emitter targets are unaffected"),
 "S-C04-3": ("C04", "EvolutionarySolver.remove_op(circuit, node=...) protects operations whose CLASS is in SolverBase.fixed_ops "
             "(Input / Output) instead of operations carrying the 'Fixed' label", "the caller-chosen form of the remove move "
             "(node= argument) on an emission CNOT or an initial measure-and-reset; the random form is unchanged"),
 "S-C06-3": ("C06", "MixedStabilizer.reduce() rescales the reduced mixture to total weight 1 ('round-off guard')",
             "stabilizer backend, a photon loss of strength < 1 followed LATER in the circuit by any depolarizing event "
             "(reduce is only called there): the mixture forgets the loss, weight 1 instead of the survival probability"),
 "S-C09-3": ("C09", "is_lc_equivalent (deterministic) adds basis vectors in place while iterating over combinations() of the basis "
             "array: the candidates become running sums", "solution space of dimension >= 5 with no valid Clifford among the "
             "running sums: first at 6 vertices, about 0.3 % of equivalent connected pairs - false 'no', never wrong gates"),
 "S-C10-3": ("C10", "graph_to_circ memoises its circuit per adjacency matrix and hands out the cached OBJECT on a miss",
             "state left over from an earlier solve() in the same process: the solver appends LC-conversion gates to the "
             "cached circuit in place (n_lc_graphs >= 2), a later request gets them twice"),
 "S-C12-3": ("C12", "_insert_at takes register and edge key from the operation's register list by POSITION instead of from the "
             "edge being split", "insert_at of a two-qubit operation whose edge list is not in (control, target) order: the "
             "new edges carry the other wire's key, no wire is a single path"),
 "S-C13-3": ("C13", "_slim_seq lists the operations in node insertion order instead of topological order",
             "a circuit with nodes created in the middle (unwrap_nodes / group_one_qubit_gates / insert_at) and THEN "
             "assign_noise or the Monte-Carlo noisy copy: the copy replays the gates in the wrong order"),
 "S-C14-3": ("C14", "to_json lists the operations sorted by node id (creation order)", "a circuit with an operation inserted in "
             "the middle of a wire (insert_at, unwrap, group) exported through JSON: the imported circuit has another order"),
 "S-C17-3": ("C17", "DensityMatrix.partial_trace gets a 'leading block' fast path that tests only keep[0] == 0 and "
             "keep[-1] == len(keep) - 1", "the state-object API (not dmf.partial_trace) with an UNSORTED keep list whose "
             "end points look like a prefix ([0, 3, 2] on 4 qubits): reduced state of the wrong qubits"),
 "S-C18-3": ("C18", "same change as S-C12-1 / S-C15-2 (replace_op files the node under the new class name), found independently for C18",
             "replace_op with a gate of another class, then a count / depth metric: CNOT replaced by CZ still counted, an "
             "Identity replaced by a Hadamard removed by the metric's remove_identity"),
 "S-C01-4": ("C01", "StabilizerCompiler applies the conditional Z of a ClassicalCZ to the CONTROL instead of the target (pure-state branch)",
             "a ClassicalCZ on the stabilizer backend without noise simulation, control measured as 1, target not a Z eigenstate "
             "(H e0; H p0; ClassicalCZ(e0 -> p0) forced 1)"),
 "S-C02-4": ("C02", "_graph_to_stabilizer_pure orders the qubits by SORTED node label", "a graph-form target whose node insertion order "
             "is not its label order: the solver returns a circuit for the permuted state and still reports score 0"),
 "S-C11-4": ("C11", "run_circuit dispatches P / P_dag through a module-level dict and swaps its entries IN PLACE for reverse runs",
             "an odd number of earlier reverse runs in the process and an inverse circuit containing a P gate: every second "
             "clifford_from_stabilizer / CliffordTableau(StabilizerTableau) builds another state"),
 "S-C12-4": ("C12", "Register.__deepcopy__ rebuilds the table from a shallow dict copy: the copy shares the 'e' / 'p' / 'c' lists",
             "circuit.copy() (or deepcopy), then a register-adding edit on ONE of the two objects: the other one's register counts "
             "change although it received no edit"),
 "S-C13-4": ("C13", "MonteCarloNoise._noisy_gates takes a shallow copy of each operation and writes the sampled noise into its noise list "
             "in place", "a Monte-Carlo noise map with an entry for a two-qubit gate: sampling noisy copies puts the sampled noise on "
             "the CNOTs of the noise-free original"),
 "S-C14-4": ("C14", "CircuitBase.to_openqasm caches the script; add / insert / replace clear the cache, remove_op (subclass) does not",
             "export, then remove_op, then export again on the same object (or a copy taken after the first export): the old text"),
 "S-C15-4": ("C15", "PhaseDagger is made a subclass of Phase (to reuse its constructor)", "direct / GED comparison (isinstance(op1, "
             "type(op2))) of a circuit with an S-dagger against one with an S in the same place, S-dagger circuit first: equal, "
             "asymmetric; CircuitStorage refuses the S circuit"),
 "S-C16-4": ("C16", "local_comp_graph flips the block of the NEIGHBOUR LABELS in an adjacency matrix that is indexed by insertion position",
             "an input graph with labels 0..n-1 inserted in non-ascending order (edge-list construction, relabel_nodes): the first "
             "complementation is not one, every explorer leaves the orbit"),
 "S-C17-4": ("C17", "inner_product builds its scratch tableau once before the loop over the X-free rows (hoisted 'loop invariant')",
             ">= 4 qubits, orthogonal states, the negative-sign generator not the FIRST X-free row of the reduced second state: "
             "Infidelity with a stabilizer target returns 0.75 instead of 1 (192 of 4096 four-vertex graph pairs)"),
 "S-C18-4": ("C18", "CircuitMaxEmitDepth takes max(calculate_reg_depth('e')) - the critical path - instead of the gate count per emitter",
             "a path through another register into an emitter's wire that is longer than the emitter's own gate sequence (two "
             "unevenly loaded emitters); benchmark and single-emitter circuits agree"),
 "S-C19-4": ("C19", "the measurement_determinism setter stores `setting or 'probabilistic'`: the documented value 0 becomes probabilistic",
             "a solver whose compiler is set to forced outcome 0 and hall-of-fame circuits whose score depends on an emitter "
             "measurement: stored scores are lucky draws (HofHonest); also caught by C01 (forcing rule)"),
 "S-C20-4": ("C20", "CircuitDAG.sequence() caches the sorted operation list under a stamp (node counter, #nodes, #edges)",
             "a long-lived circuit that has been sequenced, then gets its wrapper exchanged in place with replace_op, then is "
             "compiled again: both backends still run the old wrapper"),
 "S-C03-4": ("C03", "rref returns early when the rows merely look echelon: leftmost sites non-decreasing and NEIGHBOURING rows on one site "
             "starting with different Paulis", ">= 3 generators starting on the same site with alternating Paulis (GHZ as ZZI, XXX, "
             "ZIZ): height over-counted, gauge dependent, one emitter too many; graph-form inputs never"),
 "S-C04-4": ("C04", "the sign repair of _add_photon_absorption is factored into a helper and called without the emitter index (always "
             "emitter 0)", ">= 2 emitters, an absorption with phase -1 whose chosen emitter is not emitter 0 (1 of 41 four-vertex "
             "graphs, 7 % at five): the final inverse circuit puts an X on a photon BEFORE its emission CNOT; the state stays right"),
 "S-C05-4": ("C05", "StabilizerTableau.__init__ keeps the caller's phase array (np.asarray instead of a copy)", "to_stabilizer() "
             "of a CliffordTableau then shares its signs; canonical_form's first row swap permutes them in the SOURCE: the same "
             "long-lived tableau compared again (fidelity(t, t) = 0 for H(1), CNOT(1,0), Z(0))"),
 "S-C06-4": ("C06", "StabilizerCompiler._apply_additional_noise skips NoNoise entries and zips the remaining noises with the "
             "unfiltered register list", "a controlled gate whose noise pair is [NoNoise, X] (or control noise after / target noise "
             "before the gate): the target's noise lands on the control, stabilizer backend only"),
 "S-C07-4": ("C07", "CliffordTableau(ndarray, phase) keeps the caller's arrays (np.asarray instead of astype)", "two tableaux built "
             "from the same int arrays, or a clone CliffordTableau(t.table, t.phase), then a gate on one of them: the gate "
             "functions write into tableau.table in place, the sibling changes"),
 "S-C08-4": ("C08", "get_stabilizer_tableau_from_graph orders the qubits by SORTED node label", "a graph whose node insertion order "
             "is not its label order: this route disagrees with graph_to_stabilizer / graph_to_density"),
 "S-C09-4": ("C09", "lc_check inverts the gates that brought state 2 to graph form one by one but no longer reverses their order",
             "state 2 given as a tableau not in graph form whose reduction puts an H and a sign-fixing Z on the same qubit "
             "(~7 % of random equivalent tableaux): wrong gates (validate=False) or a Warning instead of yes"),
 "S-C10-4": ("C10", "str_to_op (list form) skips every gate on a qubit that carries an 'I'", "n_lc_graphs >= 3 and an orbit member "
             "whose conversion has the identity plus a Z correction on one qubit (path5 entry 2): circuit orthogonal to the target"),
 "S-C01-3": ("C01", "DensityMatrixCompiler caches the full-register unitary of a gate under (gate type, total qubits, register types, "
             "register numbers) - the number of photons is not in the key", "ONE compiler object compiling two circuits with the "
             "same number of qubits but another photon / emitter split (1p+2e then 2p+1e): the cached unitary sits at the wrong "
             "qubit index; a fresh compiler per circuit is unaffected"),
 "S-C02-3": ("C02", "TimeReversedSolver memoises the final emitter-disentangling circuit in a class-level dict keyed by the Pauli "
             "table WITHOUT the signs", "two solves in one process whose final emitter tableaux have the same Pauli table and "
             "different signs (two particular 4-vertex graphs in sequence; ~10 % of targets in a sweep at n = 5): stale X gates"),
 "S-C03-3": ("C03", "height_dict(graph=...) computes through an lru_cache keyed by the graph OBJECT", "height_dict / height_max "
             "queried, the same nx.Graph edited in place, queried again: the first answer comes back"),
 "S-C05-3": ("C05", "inner_product caches the inverse circuit of its first argument under the UNSIGNED Pauli labels",
             "two fidelity calls in one process whose first arguments list the same Pauli strings with different signs: "
             "fidelity(|1>, |1>) = 0, asymmetric"),
 "S-C07-3": ("C07", "remove_qubit (deterministic branch) queues the clearing of the other rows only if the +/-Z row's sign is 1 - "
             "read BEFORE the queued row products have run", "removal of an unentangled qubit in |1> on which >= 2 "
             "destabilizers have an X (X(1), CNOT(1,2), CNOT(0,2), remove 2): the remaining qubits change"),
 "S-C08-3": ("C08", "_canonical_copy rebuilds a bare tableau from its table (StabilizerTableau(table) resets the phases)",
             "stabilizer_to_graph / QuantumState s -> g on |G> in a generating set with a negative generator (K0 K1 K2 = -XXX), "
             "tableau passed bare (not as [(1.0, tableau)]): AssertionError 'not a graph state'"),
 "S-C11-3": ("C11", "_full_rank_hadamard_block applies its Hadamards with the sign-free helper linalg.hadamard_transform",
             "a state that needs the fallback of inverse_circuit (from 6 qubits on, ~0.4 %) with a Y on a fallback Hadamard "
             "position: wrong X corrections, circuit maps to another basis state"),
 "S-C15-3": ("C15", "unwrap_nodes iterates over node_dict['OneQubitGateWrapper'] while removing from it: every second wrapper stays",
             ">= 2 wrappers in one circuit: wrapped and unwrapped forms compare different, two circuits whose remaining "
             "wrappers differ compare equal"),
 "S-C16-3": ("C16", "_full_seq gets an lru_cache; _partial_orbit extends the returned (now cached) list in place",
             "linear_partial_orbit called AGAIN in one process on a chain of the same even length (or 4 then 3): duplicates"),
 "S-C19-3": ("C19", "population_initialization builds the warm-start population as [(inf, circuit.copy())] * n_pop (one shared object)",
             "the circuit= argument (initial circuit handed in), n_pop >= 2, selection off: stored scores belong to "
             "intermediate states of the one shared circuit"),
 "S-C20-3": ("C20", "find_local_clifford_by_matrix first tries members found before, accepting on |tr(U^dagger V)| = 2 without "
             "checking unitarity", "after earlier look-ups: non-unitary matrices with that overlap (2 M, M times a shear, "
             "M diag(2,0)) and unitaries within ~0.5 degrees of a member are accepted instead of rejected"),
 "S-C01-2": ("C01", "transformation.y_gate rewritten as one sign update with (x | z) instead of (x ^ z)", "a SigmaY gate (plain or in a "
             "wrapper) on a qubit on which a stabilizer generator has a Y (H, P, Y on one qubit): the stabilizer backend's state "
             "is orthogonal to the circuit's state, the density-matrix backend is right"),
 "S-C11-2": ("C11", "canonical_form multiplies a row that has no X in the pivot column by the Z pivot row with a plain XOR of Z "
             "parts and signs (no phase computation)", ">= 3 qubits, X-rank-deficient state, an X-type generator with a plain Z "
             "in a Z-block pivot column overlapping the pivot row on two more X / Y positions (<ZXX, ZZZ, IZZ>): inverse "
             "circuit prepares a state with one sign flipped, depending on the generating set"),
 "S-C13-2": ("C13", "CompilerBase.compile: in the control-noise-before / target-noise-after branch the temporary noise list aliases "
             "op.noise and overwrites its first entry with NoNoise", "noise simulation on, a controlled gate whose control noise "
             "is placed before and whose target noise after the gate, and the SAME circuit compiled (or copied) again: the "
             "second compile drops the control noise"),
 "S-C14-2": ("C14", "single_qubit_wrapper_info treats a wrapper whose non-identity gates are all of one class as that single gate",
             "a OneQubitGateWrapper made of one gate repeated ([Phase, Phase], [H, H], [Sdg, I, Sdg]) exported to openQASM: the "
             "text applies the gate once"),
 "S-C15-2": ("C15", "same change as S-C12-1 (replace_op files the node under the new class name), found independently for C15",
             "a circuit in which an Identity placeholder was replaced by a real gate with replace_op, then compared or "
             "de-duplicated: remove_identity deletes the gate, the edited circuit is reported equal to the circuit without it"),
 "S-C16-2": ("C16", "iso_finder overwrites n_iso with the number found after its exhaustive pass", "a 4-5 vertex graph and a request "
             "close to the number of distinct relabellings that exist (paw graph, n_iso = 10): more matrices than requested"),
 "S-C17-2": ("C17", "partial_trace drops the explicit einsum output subscripts (implicit mode sorts upper-case labels first): the "
             "reduced state comes out transposed", "a reduced state with non-real entries (a Y-basis factor): real states "
             "and everything the solvers trace are unaffected"),
 "S-C18-2": ("C18", "remove_identity iterates over node_dict['Identity'] while removing from it (the .copy() dropped): every second "
             "identity survives", ">= 2 Identity gates after unwrapping with a survivor on the emitter path that determines the "
             "maximum: the three emitter-depth metrics come out too large"),
 "S-C19-2": ("C19", "update_hof treats scores within 1 % as ties (np.isclose rtol = 1e-2) and then prefers the smaller circuit",
             "two different scores within 1 % (infidelities 1 - 2^-k from 7 photons on, or non-dyadic metrics): a worse circuit "
             "is inserted above a better one, hall of fame unordered, result not the best"),
 "S-C12-2": ("C12", "same change as S-C04-2 (find_incompatible_edges ignores classical-register edges), found independently for C12",
             ">= 2 operations written to one classical register with add() on quantum registers not otherwise ordered, and an "
             "edge pair that straddles them backwards: the pair is reported compatible and insert_at closes a cycle"),
 "S-C20-2": ("C20", "same change as S-C01-2 (y_gate sign rule with OR), found independently for C20's wrapper clause",
             "one of the six library wrappers containing SigmaY applied to a qubit on which a generating row has a Y "
             "(|+i>, or the Choi state after a Phase gate): stabilizer backend wrong, density matrix right"),
 "S-C02-2": ("C02", "_time_reversed_measurement skips _single_out_emitter (emitter-emitter reduction and sign repair) when no emitter "
             "acts on a photon, assuming all emitters are then still |0>", "a disconnected target with contiguous blocks whose "
             "later block needs >= 2 emitters (smallest: n = 6, an edge plus a 4-vertex component; no graph on <= 5 vertices): "
             "fidelity 0.25 on every branch, reported score 0.75"),
 "S-C03-2": ("C03", "determine_n_emitters gets a 'graph-state shortcut' that ranks the adjacency blocks with "
             "np.linalg.matrix_rank (rank over the reals, not GF(2))", "a graph-form target with >= 6 photons whose maximal "
             "cut block has an even non-zero minor (6-ring emitted as 0,3,1,5,2,4): one emitter too many"),
 "S-C04-2": ("C04", "find_incompatible_edges computes ancestors / descendants on a view of the DAG without the classical-register "
             "edges", ">= 2 emitters, a circuit built with add() (evolutionary initialisation: measure-and-reset operations "
             "chained on one classical wire), the add-measure-and-reset move picking an edge before M_i on e_i together with "
             "the photon output edge of a later M_j: the insertion closes a cycle"),
 "S-C05-2": ("C05", "canonical_form clears the Z block only in rows with a pure Z in the pivot column (finder for 'z' instead of "
             "z_matrix == 1): rows with a Y there are left alone", "a state with a Z-only generator, presented by a generating "
             "set with a Y in that generator's pivot column ({-YY, ZZ} for the Bell state): two canonical forms for one state, "
             "equal states reported unequal; fidelity unaffected"),
 "S-C06-2": ("C06", "MixedStabilizer.apply_sigmay updates the signs with (x | z) instead of (x ^ z): rows with a Y on the qubit are "
             "flipped too", "noise simulation on, stabilizer backend, PauliError('Y') or a SigmaY gate on a qubit on which a "
             "generator has a Y (after Phase on an X-type qubit): orthogonal state, trace and weights intact"),
 "S-C07-2": ("C07", "insert_qubit inserts the two new sign entries with two sequential np.insert calls (second index off by one)",
             "the stabilizer generator just before the insertion position (or the last destabilizer, for position 0) carries a "
             "minus sign when insert_qubit / add_qubit is called: the new qubit comes out as |1> and a neighbour's sign flips"),
 "S-C08-2": ("C08", "graph -> density matrix numbers the qubits by SORTED node label instead of node insertion order",
             "a graph whose node insertion order is not its label order (nx.Graph([(0,2),(2,1)])): g -> dm differs from "
             "g -> s -> dm and g -> dm -> g returns another graph"),
 "S-C09-2": ("C09", "state_to_graph builds the input tableau of a CliffordTableau with a 2n-long phase vector, which "
             "StabilizerTableau silently replaces by zeros", "lc_check / state_converter_circuit on CliffordTableau inputs with a "
             "negative stabilizer sign: answers yes, gates map state 1 onto a state orthogonal to state 2 (validate=True passes)"),
 "S-C10-2": ("C10", "AlternateTargetSolver.solve skips lc_check for the first orbit graph of the scripted orbit methods, assuming it "
             "is the isomorph itself", "lc_method='linear' on a path whose vertex 0 is interior (a relabelled path, or "
             "n_iso_graphs >= 2): the circuit prepares the local complement, not the renamed target"),
 "S-C03-1": ("C03", "height_func_list skips the echelon reduction when the generators merely LOOK echelon (sorted left ends, "
             "at most two per site)", "a generating set with two generators starting on the same site with the same Pauli, e.g. "
             "the graph 0-1, 1-2, 1-3 given as X_v Z_N(v): heights [1,2,1,0] instead of [1,1,1,0]"),
 "S-C04-1": ("C04", "_remove_node looks the register type of a re-joined edge up by register INDEX, so after removing an "
             "operation on e_i and p_i the emitter edge is filed as a photon edge",
             ">= 2 emitters; add measure-and-reset on (e_i, p_i), remove it, add another measure-and-reset that picks the "
             "mislabelled edge: a photon's first operation is no longer its emission"),
 "S-C05-1": ("C05", "inverse_circuit eliminates the remaining Z entries with plain GF(2) row addition instead of the "
             "sign-tracking row sum", ">= 3 qubits, a Z-only generator with a minus sign below the diagonal after the H/CNOT/CZ/P "
             "blocks (32 of the 1080 three-qubit states, one sign pattern each): fidelity(a, a) = 0"),
 "S-C06-1": ("C06", "DepolarizingNoise on the density-matrix backend filters zero-weight Kraus operators before zipping with "
             "the Pauli list (misaligned weights)", "depolarizing strength exactly 1.0, density-matrix backend, noisy qubit not "
             "in a Z eigenstate"),
 "S-C07-1": ("C07", "deterministic branch of z_measurement_gate reports the XOR of the generators' sign bits instead of the "
             "sign of their product", ">= 3 qubits, a determined outcome whose +/-Z is a product of >= 2 generators with an "
             "intrinsic sign ((XX)(YY) = -ZZ): ~0.6 % of (random tableau, qubit) pairs at n = 3; reset then flips a correct qubit"),
 "S-C08-1": ("C08", "state_to_graph computes the final Z corrections from the transformed tableau WITHOUT bringing it to canonical "
             "form first (assumes products of graph generators are positive)",
             ">= 4 qubits and a state for which a product of the graph's generators carries an intrinsic minus sign "
             "(K1 K2 K3 on a triangle = -XXX): 128 of the 36,720 four-qubit states, none below; graph and H / P_dag "
             "positions stay right, only the Z corrections are wrong (result orthogonal to |G>)"),
 "S-C09-1": ("C09", "_random_checker reuses its scratch vector across trials (hoisted out of the loop)",
             "mode='random', solution space of dimension >= 5, first random draw not a valid Clifford: answers yes with "
             "Cliffords that do not map |G1> to |G2>"),
 "S-C10-1": ("C10", "get_relabel_map pairs nodes in SORTED order for identical graphs", "a target graph whose node iteration "
             "order is not its sorted order (e.g. nx.Graph([(3,1),(1,0),(0,2)])); the 'self' entry then maps wrongly"),
 "S-C11-1": ("C11", "same change as S-C05-1, found independently for C11 (inverse circuit prepares a state with a flipped "
             "generator sign)", ">= 3 qubits, non-graph state with a minus sign on the pivot row (1.5 % of 3-qubit generating sets)"),
 "S-C12-1": ("C12", "replace_op removes the NEW operation's class name from node_dict instead of the old one's",
             "replace_op with an operation of a different class (Identity -> Hadamard), then remove_identity() deletes the Hadamard"),
 "S-C13-1": ("C13", "group_one_qubit_gates prepends a wrapper's operations to the collected list instead of appending",
             "a OneQubitGateWrapper followed on the same register by another non-commuting one-qubit gate, or group / add / group"),
 "S-C14-1": ("C14", "from_openqasm reads register indices from regex groups of a repeated group (keeps only the last digit)",
             ">= 11 registers of one type and a measurement / classically controlled operation on a register with index >= 10"),
 "S-C15-1": ("C15", "direct() skips a two-qubit node the second time it is reached (tests only circuit1's node)",
             ">= 3 registers, two non-commuting two-qubit gates sharing a register that is walked last, in swapped order"),
 "S-C16-1": ("C16", "lc_orbit_finder only compares a new graph with the last two layers", "rand=True, rep_allowed=False, "
             "comp_depth >= 3 on a graph whose orbit has a short cycle: the walk returns the same graph twice"),
 "S-C17-1": ("C17", "pure-state fidelity shortcut uses einsum('ij,ij->') = Tr(rho sigma^T)", "at least one pure state and both "
             "matrices with imaginary parts (Y-type stabilizers): F(|+i>, |+i>) = 0"),
 "S-C18-1": ("C18", "_max_depth caches node depths, cleared only when a node is ADDED", "query register_depth, remove an operation, "
             "query again; or CircuitMaxEmitEffDepth on a circuit with identities and no wrappers after depths were queried"),
 "S-C19-1": ("C19", "tournament_selection no longer deep-copies the winners", "selection_active=True (default False) and a winner "
             "picked twice: hall-of-fame scores no longer match the stored circuits"),
 "S-C20-1": ("C20", "check_equivalent_unitaries derives the global phase from det(U1)/det(U2) ** (1/dim)", "a word whose product "
             "differs from its library representative by a phase with negative real part: simplify_local_clifford raises"),

 # ---- round 5
 "S-C01-5": ("C01", "CompilerBase keeps the register -> matrix-index function per TOTAL qubit count and reuses it between compile() calls",
             "one compiler object compiling two circuits with the same number of qubits but another emitter / photon split: emitter gates land on the wrong qubit"),
 "S-C02-5": ("C02", "StabilizerTableau._reset (behind expand / shrink) keeps the new phase vector only if its length equals the OLD qubit count, else zeros",
             "a stabilizer target whose generators carry a minus sign (|G> in another gauge, e.g. out of a stabilizer simulation): the signs are dropped when the emitters are appended and the solver builds a circuit for an orthogonal state"),
 "S-C03-5": ("C03", "emitter_sorted takes the emitter number of each relabelled graph as the maximal REAL (float) rank of the adjacency block across each cut",
             "a graph (>= 6 vertices) with a cut block whose rank over the reals exceeds its GF(2) rank: wrong emitter number, wrong order"),
 "S-C04-5": ("C04", "find_incompatible_edges follows the quantum wires only (classical wires filtered out of the ancestor / descendant search)",
             "two operations ordered only through a shared classical register: an edge pair that would close a cycle is offered as a candidate position"),
 "S-C05-5": ("C05", "Stabilizer.__eq__ short-cut: same generator matrix in the same order -> compare the whole phase vector (destabilizer signs included)",
             "the same state given with equal stabilizer rows and signs but other destabilizer signs: reported unequal"),
 "S-C06-5": ("C06", "the two-part noise of a two-qubit gate is applied by writing into the operation's own noise list (op.noise[1] = NoNoise(), restored afterwards from a local)",
             "the same noisy circuit object compiled a second time (second backend, second run): the first compile left [NoNoise, target noise] in the operation - the control-qubit noise is gone; also caught by C13 FrameOK"),
 "S-C07-5": ("C07", "partial_trace removes the positions in reversed(list(set)) order instead of sorted descending",
             "nine or more qubits with at least two dropped positions one of which is >= 8 (the set no longer iterates in ascending order): wrong qubit removed or IndexError"),
 "S-C08-5": ("C08", "graph -> density conversion builds the state as the Kronecker product of its connected components (in component order)",
             "a disconnected graph whose components are not contiguous in node order (0-2, 1-3): qubits permuted"),
 "S-C09-5": ("C09", "Graph.local_complementation adds missing neighbour edges to SELF instead of to the returned copy",
             "local complementation at a vertex with two non-adjacent neighbours: result lacks the edge and the input graph gains it"),
 "S-C10-5": ("C10", "TimeReversedSolver._single_out_emitter puts the sign-correcting X of a time-reversed measurement on register `emitter_index` (a photon position) instead of `n_photon + emitter_index`; the tableau bookkeeping is unchanged",
             "a target under which an emitter-only generator reaches a time-reversed measurement with phase -1: no labelled graph below 6 vertices, ~0.2 - 0.4 % of labelled 6 - 7 vertex graphs; the circuit then prepares a Pauli-flipped state (also breaks C02)"),
 "S-C11-5": ("C11", "CliffordTableau(StabilizerTableau) initialises its phase from the n-entry stabilizer phase BEFORE the conversion (falls back to zeros) and never takes the converted signs",
             "a stabilizer tableau with a negative sign, or a Y-type all-positive set whose reduction introduces one: all signs positive, another state"),
 "S-C12-5": ("C12", "OneQubitGateWrapper.unwrap() builds the noise-carrier Identity without reg_type (defaults to 'e')",
             "a wrapper on a PHOTON register with a single (non-list) noise model, then unwrap_nodes(): an emitter operation sits on a photon wire"),
 "S-C13-5": ("C13", "StabilizerTableau(array, phase) keeps the caller's arrays (np.array(..., dtype=int) / np.asarray) instead of copies",
             "Infidelity.evaluate or solver construction on a stabilizer target with mixed signs: the target's phase is shared with a working tableau and changes"),
 "S-C14-5": ("C14", "openQASM text of measure-CNOT-and-reset emits the reset only when the control is an emitter",
             "a measure-and-reset whose control is a photon register: exported program lacks the reset"),
 "S-C15-5": ("C15", "CircuitDAG.compare ged branch returns `not sim` for the edit-distance result", "two circuits more than the edit-distance bound apart (the search gives up and returns None): reported EQUAL by GED_full / GED_adaptive"),
 "S-C16-5": ("C16", "_depth_first takes path_list=[] / orbit_list=[] as mutable default arguments", "depth_first_orbit called on several graphs in one process: paths of earlier graphs are replayed on the next one, orbit members repeat"),
 "S-C17-5": ("C17", "trace_distance symmetrises the difference with .T (not conjugate transpose) before eigh", "density matrices with imaginary off-diagonal parts (Y eigenstates): the imaginary part cancels, distance too small"),
 "S-C18-5": ("C18", "reset / effective emitter depth treat every ClassicalControlledPairOperationBase (classical CNOT / CZ, not only measure-and-reset) as a reset boundary",
             "a feed-forward circuit with a classically controlled correction touching an emitter between two resets"),
 "S-C19-5": ("C19", "HybridEvolutionarySolver starts a tenth of the population as `[(inf, ideal.copy())] * n` (ONE circuit object in n slots)",
             "n_pop >= 20: the shared circuit is mutated once per slot and generation, earlier slots keep stale scores that enter the hall of fame"),
 "S-C20-5": ("C20", "DensityMatrixCompiler caches the full-size matrix of parameter-free one-qubit gates under (class, reg_type, register, n_quantum)",
             "one compiler object, two circuits with the same total size and another emitter / photon split: a cached emitter gate acts on the wrong position"),

 # ---- round 6 (eight properties, 50-minute agents)
 "S-C01-6": ("C01", "DensityMatrix.apply_measurement decides whether a forced outcome is possible with `p > 0` instead of `not isclose(p, 0)`",
             "density-matrix backend, forced setting, the forced value being the impossible outcome of a qubit that returned to a basis state through interference (H H, a Bell pair uncomputed: p ~ 1e-34 instead of 0)"),
 "S-C04-6": ("C04", "EvolutionarySolver.remove_op (caller-chosen node) protects `get_node_by_labels(['Fixed', 'Input', 'Output'])` - nodes carrying ALL three labels, i.e. none",
             "the caller-chosen form of the remove move pointed at an emission CNOT or a measure-and-reset placed at initialisation: it is removed"),
 "S-C05-6": ("C05", "run_circuit looks P / P_dag up in a mutable default dict and overwrites its entries for reverse runs (never restored)",
             "a reverse run earlier in the process (any StabilizerTableau -> CliffordTableau conversion), then a fidelity whose first state needs a phase gate in its inverse circuit: F(a, a) = 0; also caught by C07 (forward and reverse circuit runs interleaved)"),
 "S-C06-6": ("C06", "transformation.y_gate rewritten as one pass `phase ^= x | z` (should be x ^ z: a row with a Y on the qubit commutes with Y)",
             "a Y-type error (PauliError('Y'), the Y branch of depolarizing noise, a SigmaY gate) on a qubit that holds a Y component in a stabilizer row; also caught by C07 (GroupOK) and C01 (StateOK)"),
 "S-C09-6": ("C09", "get_stabilizer_tableau_from_graph builds the adjacency matrix with nodelist=sorted(graph.nodes) while converter_gate_list keeps insertion order",
             "lc_check / state_converter_circuit on nx graphs whose insertion order is not sorted: gates land on the wrong qubits, LinAlgError swallowed -> 'not equivalent' or a Warning under validate=True"),
 "S-C12-6": ("C12", "CircuitBase.copy() pre-seeds deepcopy's memo with the register table: copy and original share one Register object",
             "copy(), then a register-adding edit on one of the two, then look at (or keep editing) the other: its register counts disagree with its own graph"),
 "S-C14-6": ("C14", "OneQubitGateWrapper caches its openQASM info in a class-level dict keyed by frozenset(operations)",
             "two wrappers in one process with the same SET of gate classes in another order or multiplicity ([H, P] then [P, H] or [P, H, P]): the later ones export the first one's gate definition"),
 "S-C17-6": ("C17", "_stabilizer_to_density_pure accumulates into a preallocated float buffer (`rho[:] = ...`): imaginary parts are dropped",
             "Infidelity / TraceDistance with a density-matrix target and a stabilizer state that has a Y-type generator: the state is converted to the real part of its matrix"),
}
STRENGTHENED = {
 "S-C05-6": "the comparisons are interleaved with what else a process does with the library (tableau conversions, which run synthesised circuits backwards, a forward circuit run, a graph tableau) - the C05 harness had built every tableau itself and never called them",
 "S-C09-6": "lc_check on the same pairs handed over as graphs with a shuffled node insertion order (position view unchanged)",
 "S-C02-5": "every third 3-5 vertex target also as a stabilizer state in a random gauge with signed generators (products of the textbook ones), built independently",
 "S-C03-5": "emitter_sorted on pools of 6-vertex graphs most of which have a cut block with different real and GF(2) rank",
 "S-C06-5": "every second noisy circuit is compiled by both backends as the SAME object (no copy in between)",
 "S-C07-5": "9-12 qubit walks judged at group level (512-4096 elements) with partial traces dropping the last and 1-2 other positions",
 "S-C10-5": "solver targets chosen by execution coverage of the deterministic solver (engine/covpool.py: 12,000 sampled labelled graphs, 29 kept, 6 of them reach the sign-correction branch); used by C10 and C02",
 "S-C12-5": "wrappers in edit histories carry one noise model (after / before gate) or a per-gate list half of the time",
 "S-C13-5": "a second target per history: the signed state a photon-only Clifford circuit with Pauli gates compiles to; metric and solver construction against it",
 "S-C15-5": "a pair of circuits fifteen gates apart compared by GED_full / GED_adaptive / direct in both orders",
 "S-C16-5": "depth_first_orbit (called on every connected graph in the one process) held to distinctness",
 "S-C18-5": "feed-forward circuits: classically controlled X / Z corrections touching emitters (measurement count not judged on them)",
 "S-C19-5": "fourteen more runs with populations of 30-60 and halls of fame of 8-20",
 "S-C20-5": "wrapper legs on 1e+2p / 2e+1p layouts alternating through the long-lived compilers; fresh-compiler counter per backend (was phase-locked with alternating backends)",
 "S-C06-1": "grid extended by the endpoint p = 1", "S-C02-4": "graph-form targets with a shuffled node insertion order (position view = the target)",
 "S-C12-4": "a copy of the circuit is set aside and looked at again after later edits of the original (CopyIndependent)",
 "S-C14-4": "the circuit is exported once BEFORE it is edited; edits include removals",
 "S-C15-4": "near-miss variant 'related gate' (Phase <-> PhaseDagger, SigmaX <-> SigmaY, plain or inside a wrapper)",
 "S-C16-4": "explorers and local_comp_graph on graphs with a shuffled insertion order (C16 and C09)",
 "S-C19-4": "a run with the compiler forced to outcome 0 on a target that cannot be reached (imperfect hall of fame)",
 "S-C20-4": "one long-lived circuit per register type: read, wrapper exchanged with replace_op, compiled, repeatedly; replace edits in cz.edit_circuit",
 "S-C04-4": "solver-output circuits of all connected 4-vertex and random 5-6 vertex graphs judged for emission shape in C04 itself",
 "S-C05-4": "half of the comparisons use the long-lived tableau objects themselves (no copies)",
 "S-C07-4": "clones made with the array constructor from a source's arrays; the source must stay what it was (SourceUnchanged)",
 "S-C01-3": "most compiles go through one long-lived compiler object per backend (engine/circuits.py), used by every compile leg",
 "S-C03-3": "the same graph object queried, edited in place, queried again",
 "S-C16-3": "scripted explorers called repeatedly in one process, sizes interleaved, held to distinctness (their docstring)",
 "S-C19-3": "warm-start runs (circuit= argument), selection off and on",
 "S-C20-3": "near misses of every library member (scaled, sheared, rank-one, rotated by 0.3 / 1.1 degrees) after the look-ups",
 "S-C04-3": "the caller-chosen remove_op(node=...) on any operation node",
 "S-C09-3": "~1,000 equivalent pairs at 6-7 vertices, equivalence certified by a complementation sequence TLC replays (lc_decide_cert)",
 "S-C12-3": "edge list of a two-qubit insert_at in either order",
 "S-C14-3": "circuits edited after construction (insert_at / unwrap / group) - also used by C01",
 "S-C17-3": "state-object partial traces on 3-4 qubits in every listing order of the kept qubits",
 "S-C18-3": "cross-class replace_op edits in the edit-then-measure histories",
 "S-C13-2": "noise maps with the control noise before and the target noise after the gate; noisy copies compiled repeatedly",
 "S-C14-2": "wrapper words the library never builds (one gate repeated, identity padding) - used by every circuit-level check",
 "S-C15-2": "circuit families built through Identity placeholders and replace_op",
 "S-C16-2": "isomorph requests close to n! / |Aut|",
 "S-C19-2": "update_hof driven directly with synthetic populations incl. near ties (clauses HofSorted / HofFromKnown / BestKept on one update)",
 "S-C20-2": "wrapper order runs also on the Choi state after a Phase gate (generating rows with a Y)",
 "S-C02-2": "disjoint unions of connected 2-4 vertex blocks (n = 4..8) as targets",
 "S-C03-2": "6-8 vertex graphs, half of them chosen so that a cut block has different real and GF(2) rank",
 "S-C08-2": "graphs whose node insertion order is not the label order",
 "S-C09-2": "lc_check on stabilizer STATES (signs, local Cliffords, both tableau classes) - new clause lc_states",
 "S-C10-2": "scripted orbit methods on relabelled paths / repeater graphs with several isomorphs",
 "S-C08-1": "sampled 4-6 qubit states (independent sampler, harness-built Clifford tableaux)",
 "S-C07-1": "measuring actions from ~1,100 sampled 3/4-qubit tableaux",
 "S-C10-1": "targets with shuffled node insertion order", "S-C13-1": "systematic rewrite traces (group / add / group ...)",
 "S-C14-1": "wide circuits (11-13 registers, multi-digit names)", "S-C16-1": "random-walk explorers at depth 6 / 15 held to distinctness",
 "S-C18-1": "edit-then-measure histories (query, remove, query)",
}


def main():
    rows = []
    for sid, (pid, what, needs) in sorted(SEEDS.items()):
        d = os.path.join(VERIF, "seeded", sid)
        if not os.path.isdir(d) or not what:
            continue
        det = json.load(open(os.path.join(d, "detection.json"))) if os.path.exists(os.path.join(d, "detection.json")) else {}
        conf = json.load(open(os.path.join(d, "confirm.json"))) if os.path.exists(os.path.join(d, "confirm.json")) else {}
        caught = {k: v for k, v in det.items() if v.get("exit") == 1}
        meta = {"id": sid, "breaks_property": pid, "change": what, "needs_to_manifest": needs,
                "origin": "fresh sub-agent given only the property text and a scratch worktree (nothing from /verif)",
                "confirmed": {"how": "python -m engine.seedconfirm (scratch worktree of /repo HEAD: demo exits 1 with the patch, 0 "
                                     "without; --suite: full repository suite compared with BASELINE stable_pass)", **conf},
                "detection": {"how": "python -m engine.seedtest <dir> <property> (git apply to /repo, run the check, git checkout)",
                              "results": det},
                "strengthened_for_it": STRENGTHENED.get(sid, "")}
        json.dump(meta, open(os.path.join(d, "meta.json"), "w"), indent=1)
        first = ""
        for k, v in caught.items():
            if v.get("first"):
                import re
                m = re.search(r"clause (\S+) ?(\S*)", v["first"][0])
                first = f"{k.split(':')[0]} `{m.group(1)}`" if m else k
                break
        what, needs = what.replace("|", "/"), needs.replace("|", "/")
        rows.append(f"| {sid} | {pid} | {what} | {needs} | {first or 'NOT CAUGHT'} | {STRENGTHENED.get(sid, '-')} |")
    print("| seed | breaks | change | needs | caught by (quick) | check strengthened |")
    print("|---|---|---|---|---|---|")
    print("\n".join(rows))


if __name__ == "__main__":
    main()
