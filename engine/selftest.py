"""Binding demos (not a registered check): corrupt one recorded field of an ACCEPTED trace, or drop an event, and
require that TLC rejects the trace with the expected clause.  `python -m engine.selftest` prints one line per demo and
exits 1 if any corruption is accepted (the trace specs would then be vacuous)."""
from __future__ import annotations

import copy
import os
import random
import sys

os.environ.setdefault("MPLBACKEND", "Agg")
for _v in ("OMP_NUM_THREADS", "OPENBLAS_NUM_THREADS", "MKL_NUM_THREADS"):
    os.environ.setdefault(_v, "1")
REPO = os.environ.get("VERIF_REPO", "/repo")
sys.path.insert(0, REPO)

from . import tlc, trace  # noqa: E402


def verdict(module, t, mode="exists"):
    wd = tlc.scratch("selftest")
    try:
        v = trace.validate(module, [t], workdir=wd, shards=1, mode=mode)
        return [(r["clause"], r["cause"]) for r in v.rejects]
    finally:
        tlc.cleanup(wd)


def main():
    from drivers import c07, c12, c01, c02, c18
    from engine import circuits as cz
    import networkx as nx
    rng = random.Random(7)
    demos = []

    # --- tableau walk (C07)
    base = c07.walk_trace(1, rng, 3, 25, 4)
    assert verdict("Trace_Tableau", base) == [], "baseline tableau walk must be accepted"
    t = copy.deepcopy(base)
    k = next(i for i, e in enumerate(t["events"]) if e["ev"] in ("g1", "g2"))
    n = t["events"][k]["post"]["n"]
    t["events"][k]["post"]["r"][n] ^= 1                      # flip the sign of the first stabilizer
    demos.append(("C07 flip one stabilizer sign bit", "Trace_Tableau", t, {"GroupOK"}))
    t = copy.deepcopy(base)
    t["events"][k]["post"]["x"][0][0] = 2                    # non-binary entry
    demos.append(("C07 non-binary table entry", "Trace_Tableau", t, {"Binary"}))
    t = copy.deepcopy(base)
    post = t["events"][k]["post"]
    post["x"][0], post["x"][1 % (2 * n)] = post["x"][1 % (2 * n)], post["x"][0]   # swap two destabilizer x rows only
    demos.append(("C07 destabilizer no longer paired", "Trace_Tableau", t, {"Symplectic", "GroupOK"}))
    t = copy.deepcopy(base)
    # drop an event that changed the tableau (a removed hook); dropping a no-op is rightly accepted
    def stab(o):
        return (o["x"][o["n"]:], o["z"][o["n"]:], o["r"][o["n"]:])
    prev = t["init"]
    kk = None
    for i, e in enumerate(t["events"]):
        if e["post"]["err"] == "" and e["post"]["n"] == prev["n"] and e["ev"] in ("g1", "g2") and stab(e["post"]) != stab(prev):
            kk = i
            break
        prev = e["post"] if e["post"]["err"] == "" else prev
    del t["events"][kk]
    demos.append(("C07 dropped event", "Trace_Tableau", t, None))

    # --- compile trace (C01)
    prog = [{"k": "Hadamard", "r": [["e", 0]], "c": None}, {"k": "CNOT", "r": [["e", 0], ["p", 0]], "c": None},
            {"k": "MeasurementCNOTandReset", "r": [["e", 0], ["p", 0]], "c": 0}, {"k": "Phase", "r": [["p", 0]], "c": None}]
    tr, _ = c01.traces_for(0, prog, 1, 1, 1, rng, settings=(1,), backends=("stabilizer",))
    base = tr[0]
    assert verdict("Trace_CircuitRun", base) == []
    t = copy.deepcopy(base)
    t["events"][1], t["events"][0] = t["events"][0], t["events"][1]
    demos.append(("C01 two operations executed in the wrong order", "Trace_CircuitRun", t, {"OrderOK"}))
    t = copy.deepcopy(base)
    t["events"][2]["creg"] = [1 - t["events"][2]["creg"][0]]
    demos.append(("C01 classical record flipped", "Trace_CircuitRun", t, {"CregOK", "OutcomeAllowed"}))
    t = copy.deepcopy(base)
    del t["events"][3]
    demos.append(("C01 one operation skipped", "Trace_CircuitRun", t, {"AllOpsExecuted"}))

    # --- DAG structure (C12)
    circuit = cz.build_circuit(2, 1, 1, prog[:2] + [{"k": "CNOT", "r": [["e", 1], ["p", 0]], "c": None}])
    base = c12.history(1, rng, circuit, 6, {"origin": "selftest"})
    assert verdict("Trace_CircuitDag", base) == []
    t = copy.deepcopy(base)
    obs = t["events"][-1]["obs"] if t["events"][-1]["obs"]["err"] == "" else t["init"]
    lab = next(k for k, v in obs["node_dict"].items() if v)
    obs["node_dict"][lab] = obs["node_dict"][lab][:-1]       # index forgets a node
    demos.append(("C12 node_dict forgets a node", "Trace_CircuitDag", t, {"NodeDictAgree", "InitNodeDictAgree"}))
    t = copy.deepcopy(base)
    obs = t["init"]
    e = obs["edges"].pop()                                   # an edge disappears from the graph
    demos.append(("C12 edge missing from the graph", "Trace_CircuitDag", t, None))

    # --- solver circuit (C02): claim a different target
    rec, _ = c02.solve(nx.path_graph(3), "g", "stabilizer")
    rec.update({"tid": 1, "events": []})
    assert verdict("Trace_CircuitAll", rec, mode="forall") == []
    t = copy.deepcopy(rec)
    t["target"]["edges"] = [[1, 2], [1, 3]]
    demos.append(("C02 circuit judged against another graph", "Trace_CircuitAll", t, {"Generates"}))

    # --- metrics (C18)
    base = c18.trace_for(1, cz.build_circuit(2, 1, 1, prog), rng, {})
    assert verdict("Trace_Metrics", base) == []
    t = copy.deepcopy(base)
    ev = next(e for e in t["events"] if e["fn"] == "metric" and e["name"] == "CircuitDepth")
    ev["out"]["v"] += 1
    demos.append(("C18 depth off by one", "Trace_Metrics", t, {"MetricOK"}))

    # --- graph representation object (X02): drop a call / forget a remembered Clifford
    from drivers import x02, c19, c16
    calls = [{"a": "add_edge", "u": 1, "v": 2, "w": []}, {"a": "update_lc", "u": 1, "v": 0, "w": ["Hadamard"]},
             {"a": "add_node", "u": 3, "v": 0, "w": ["Phase", "Hadamard"]}, {"a": "local_comp", "u": 1, "v": 0, "w": []}]
    base = {"tid": 1, "events": x02.replay(calls)}
    assert verdict("Trace_GraphRep", base) == []
    t = copy.deepcopy(base)
    del t["events"][1]
    demos.append(("X02 dropped update_lc call", "Trace_GraphRep", t, {"CliffordOK", "ErrorOK", "IsGraphStateOK"}))
    t = copy.deepcopy(base)
    t["events"][3]["err"] = ""
    demos.append(("X02 error of local_complementation on a non-graph state not recorded", "Trace_GraphRep", t, {"ErrorOK"}))

    # --- noise map (X06): a refused tuple left in the map (the defect X06-F1 as a corrupted record); a dropped call
    from drivers import x06
    calls = x06.with_queries([{"a": "add_tuple", "k": "e", "g": "Hadamard", "ts": [["X", 6, True]]},
                              {"a": "add_tuple", "k": "e", "g": "Hadamard", "ts": [["Z", 4, True]]},
                              {"a": "add_gate", "k": "ep", "g": "CNOT", "ts": [["X", 2, True], ["Z", 2, True]]}])
    base = {"tid": 1, "gates": x06.GATES, "events": x06.replay(calls)}
    assert verdict("Trace_NoiseMap", base) == []
    t = copy.deepcopy(base)
    for e in t["events"][3:]:
        e["obs"]["e"]["Hadamard"]["l"].append(["Z", 4])
    demos.append(("X06 refused tuple stays in the map", "Trace_NoiseMap", t, {"SumBoundOK"}))
    t = copy.deepcopy(base)
    del t["events"][6]
    demos.append(("X06 dropped add_gate_noise call", "Trace_NoiseMap", t, {"ReturnOK", "MapOK"}))

    # --- photon-loss accounting (X07): the control photon charged with the target's noise (defect X07-F1 as a record)
    from drivers import x07
    spec = [{"q": ["p0"], "loss": [1]}, {"q": ["p0", "p1"], "loss": [2, 0]}]
    ev = x07.event(x07.build(spec, 2, random.Random(3)), "photon-is-control")
    base = {"tid": 1, "events": [ev]}
    assert verdict("Trace_PhotonLoss", base) == []
    t = copy.deepcopy(base)
    t["events"][0]["out"][0] = [1, 2]                      # 1/2 instead of 3/8: the loss on the control ignored
    demos.append(("X07 loss on a control photon ignored", "Trace_PhotonLoss", t, {"SurvivalOK"}))

    # --- Monte-Carlo noise assignment (X08): a wrapper's noise attached to the mirrored gate (defect X08-F1 as a record)
    from drivers import x08
    from graphiq.noise.monte_carlo_noise import McNoiseMap
    import graphiq.noise.noise_models as gnm
    mm = McNoiseMap()
    mm.add_gate_noise("p", "Hadamard", [(gnm.PauliError("X"), 1.0)])
    circ = cz.build_circuit(1, 1, 1, [{"k": "OneQubitGateWrapper", "r": [["p", 0]], "c": None, "w": ["Phase", "Hadamard"]}])
    base = {"tid": 1, "events": [x08.event(circ, mm, 5, "wrapper")]}
    assert verdict("Trace_McAssign", base) == []
    t = copy.deepcopy(base)
    t["events"][0]["out"][0].reverse()
    t["events"][0]["out2"][0].reverse()
    demos.append(("X08 wrapper noise on the mirrored gate", "Trace_McAssign", t, {"SupportOK"}))

    # --- metric log (X09): a value logged although it is not a log_steps-th evaluation; a composite value off by one
    from drivers import x09
    r9 = random.Random(11)
    base = next(t for t in (x09.history(1, r9, True) for _ in range(50)) if t["log_steps"] >= 2 and len(t["events"]) >= 3)
    assert verdict("Trace_MetricLog", base) == []
    t = copy.deepcopy(base)
    t["events"][0]["log"] = [t["events"][0]["v"]]
    demos.append(("X09 value logged out of turn", "Trace_MetricLog", t, {"LogOK"}))
    t = copy.deepcopy(base)
    t["events"][1]["v"] += 1
    demos.append(("X09 composite value is not the weighted sum", "Trace_MetricLog", t, {"ValueOK"}))

    # --- update_hof replay (C19): a worse circuit ranked above a better one
    class _Ctx:
        rng = random.Random(5)
        quick = True
    hof = c19.hof_replay_traces(_Ctx, 0)[:1]
    assert verdict("Trace_Evo", hof[0]) == []
    t = copy.deepcopy(hof[0])
    ev = next(e for e in t["events"] if len([x for x in e["after"] if x["size"]]) >= 2
              and e["after"][0]["score"] + 100000 < e["after"][1]["score"])
    ev["after"][0], ev["after"][1] = ev["after"][1], ev["after"][0]
    demos.append(("C19 hall of fame entries swapped", "Trace_Evo", t, {"HofSorted"}))
    t = copy.deepcopy(hof[0])
    ev = next(e for e in t["events"] if [x for x in e["after"] if x["size"]])
    ev["after"][0]["size"] += 7
    demos.append(("C19 hall of fame holds a circuit nobody handed in", "Trace_Evo", t, {"HofFromKnown"}))

    # --- certificate-based orbit membership (C16): a certificate that does not lead to the returned graph
    import graphiq.utils.relabel_module as rm
    from drivers.c09 import graph_out
    g = nx.path_graph(7)
    res = rm.linear_partial_orbit(g.copy())
    certs = c16.lc_certs(g, res, 7)
    base = {"tid": 1, "n": 7, "base": cz.graph_edges1(g), "need_orbit": False,
            "events": [{"fn": "orbit_cert", "via": "linear_partial_orbit", "distinct": False,
                        "out": {"err": "", "graphs": [graph_out(h, 7) for h in res]}, "certs": certs}]}
    assert verdict("Trace_Graphs", base) == []
    t = copy.deepcopy(base)
    t["events"][0]["out"]["graphs"][2]["edges"] = t["events"][0]["out"]["graphs"][2]["edges"][:-1]
    demos.append(("C16 returned graph is not what the certificate reaches", "Trace_Graphs", t, {"OrbitMember"}))

    bad = 0
    for name, module, t, expect in demos:
        mode = "forall" if module == "Trace_CircuitAll" else "exists"
        try:
            got = verdict(module, t, mode)
        except tlc.MachineryError as ex:
            got = [("MachineryError", str(ex)[:60])]
        clauses = {c for c, _ in got}
        ok = bool(got) and (expect is None or clauses & expect)
        print(("ok   " if ok else "FAIL ") + name + " -> " + (", ".join(sorted(clauses)) or "ACCEPTED"))
        bad += 0 if ok else 1
    return 1 if bad else 0


if __name__ == "__main__":
    sys.exit(main())
