"""Binding demos (not a registered check): corrupt one recorded field of an ACCEPTED trace, or drop an event, and
require that TLC rejects the trace with the expected clause.  `python -m engine.selftest` prints one line per demo and
exits 1 if any corruption is accepted (the trace specs would then be vacuous)."""
from __future__ import annotations

import copy
import os
import random
import sys

os.environ.setdefault("MPLBACKEND", "Agg")
for _v in ("OMP_NUM_THREADS", "OPENBLAS_NUM_THREADS", "MKL_NUM_THREADS"):
    os.environ.setdefault(_v, "1")
REPO = os.environ.get("VERIF_REPO", "/repo")
sys.path.insert(0, REPO)

from . import tlc, trace  # noqa: E402


def verdict(module, t, mode="exists"):
    wd = tlc.scratch("selftest")
    try:
        v = trace.validate(module, [t], workdir=wd, shards=1, mode=mode)
        return [(r["clause"], r["cause"]) for r in v.rejects]
    finally:
        tlc.cleanup(wd)


def main():
    from drivers import c07, c12, c01, c02, c18
    from engine import circuits as cz
    import networkx as nx
    rng = random.Random(7)
    demos = []

    # --- tableau walk (C07)
    base = c07.walk_trace(1, rng, 3, 25, 4)
    assert verdict("Trace_Tableau", base) == [], "baseline tableau walk must be accepted"
    t = copy.deepcopy(base)
    k = next(i for i, e in enumerate(t["events"]) if e["ev"] in ("g1", "g2"))
    n = t["events"][k]["post"]["n"]
    t["events"][k]["post"]["r"][n] ^= 1                      # flip the sign of the first stabilizer
    demos.append(("C07 flip one stabilizer sign bit", "Trace_Tableau", t, {"GroupOK"}))
    t = copy.deepcopy(base)
    t["events"][k]["post"]["x"][0][0] = 2                    # non-binary entry
    demos.append(("C07 non-binary table entry", "Trace_Tableau", t, {"Binary"}))
    t = copy.deepcopy(base)
    post = t["events"][k]["post"]
    post["x"][0], post["x"][1 % (2 * n)] = post["x"][1 % (2 * n)], post["x"][0]   # swap two destabilizer x rows only
    demos.append(("C07 destabilizer no longer paired", "Trace_Tableau", t, {"Symplectic", "GroupOK"}))
    t = copy.deepcopy(base)
    # drop an event that changed the tableau (a removed hook); dropping a no-op is rightly accepted
    def stab(o):
        return (o["x"][o["n"]:], o["z"][o["n"]:], o["r"][o["n"]:])
    prev = t["init"]
    kk = None
    for i, e in enumerate(t["events"]):
        if e["post"]["err"] == "" and e["post"]["n"] == prev["n"] and e["ev"] in ("g1", "g2") and stab(e["post"]) != stab(prev):
            kk = i
            break
        prev = e["post"] if e["post"]["err"] == "" else prev
    del t["events"][kk]
    demos.append(("C07 dropped event", "Trace_Tableau", t, None))

    # --- compile trace (C01)
    prog = [{"k": "Hadamard", "r": [["e", 0]], "c": None}, {"k": "CNOT", "r": [["e", 0], ["p", 0]], "c": None},
            {"k": "MeasurementCNOTandReset", "r": [["e", 0], ["p", 0]], "c": 0}, {"k": "Phase", "r": [["p", 0]], "c": None}]
    tr, _ = c01.traces_for(0, prog, 1, 1, 1, rng, settings=(1,), backends=("stabilizer",))
    base = tr[0]
    assert verdict("Trace_CircuitRun", base) == []
    t = copy.deepcopy(base)
    t["events"][1], t["events"][0] = t["events"][0], t["events"][1]
    demos.append(("C01 two operations executed in the wrong order", "Trace_CircuitRun", t, {"OrderOK"}))
    t = copy.deepcopy(base)
    t["events"][2]["creg"] = [1 - t["events"][2]["creg"][0]]
    demos.append(("C01 classical record flipped", "Trace_CircuitRun", t, {"CregOK", "OutcomeAllowed"}))
    t = copy.deepcopy(base)
    del t["events"][3]
    demos.append(("C01 one operation skipped", "Trace_CircuitRun", t, {"AllOpsExecuted"}))

    # --- DAG structure (C12)
    circuit = cz.build_circuit(2, 1, 1, prog[:2] + [{"k": "CNOT", "r": [["e", 1], ["p", 0]], "c": None}])
    base = c12.history(1, rng, circuit, 6, {"origin": "selftest"})
    assert verdict("Trace_CircuitDag", base) == []
    t = copy.deepcopy(base)
    obs = t["events"][-1]["obs"] if t["events"][-1]["obs"]["err"] == "" else t["init"]
    lab = next(k for k, v in obs["node_dict"].items() if v)
    obs["node_dict"][lab] = obs["node_dict"][lab][:-1]       # index forgets a node
    demos.append(("C12 node_dict forgets a node", "Trace_CircuitDag", t, {"NodeDictAgree", "InitNodeDictAgree"}))
    t = copy.deepcopy(base)
    obs = t["init"]
    e = obs["edges"].pop()                                   # an edge disappears from the graph
    demos.append(("C12 edge missing from the graph", "Trace_CircuitDag", t, None))

    # --- solver circuit (C02): claim a different target
    rec, _ = c02.solve(nx.path_graph(3), "g", "stabilizer")
    rec.update({"tid": 1, "events": []})
    assert verdict("Trace_CircuitAll", rec, mode="forall") == []
    t = copy.deepcopy(rec)
    t["target"]["edges"] = [[1, 2], [1, 3]]
    demos.append(("C02 circuit judged against another graph", "Trace_CircuitAll", t, {"Generates"}))

    # --- metrics (C18)
    base = c18.trace_for(1, cz.build_circuit(2, 1, 1, prog), rng, {})
    assert verdict("Trace_Metrics", base) == []
    t = copy.deepcopy(base)
    ev = next(e for e in t["events"] if e["fn"] == "metric" and e["name"] == "CircuitDepth")
    ev["out"]["v"] += 1
    demos.append(("C18 depth off by one", "Trace_Metrics", t, {"MetricOK"}))

    bad = 0
    for name, module, t, expect in demos:
        mode = "forall" if module == "Trace_CircuitAll" else "exists"
        try:
            got = verdict(module, t, mode)
        except tlc.MachineryError as ex:
            got = [("MachineryError", str(ex)[:60])]
        clauses = {c for c, _ in got}
        ok = bool(got) and (expect is None or clauses & expect)
        print(("ok   " if ok else "FAIL ") + name + " -> " + (", ".join(sorted(clauses)) or "ACCEPTED"))
        bad += 0 if ok else 1
    return 1 if bad else 0


if __name__ == "__main__":
    sys.exit(main())
