"""Regenerates the machine-written tables of DESIGN.md (between <!-- X-BEGIN --> / <!-- X-END --> markers):
FINDINGS (from KNOWN_FINDINGS.jsonl) and SEEDS (from seeded/*/meta.json).  `python -m engine.designdoc`."""
import io
import json
import os
import re
import contextlib

VERIF = os.path.dirname(os.path.dirname(os.path.abspath(__file__)))


def findings_table():
    rows = [json.loads(l) for l in open(os.path.join(VERIF, "KNOWN_FINDINGS.jsonl")) if l.strip()]
    out = ["| id | status | clause / cause | what |", "|---|---|---|---|"]
    for r in rows:
        if r["status"] == "fixed":
            m = re.match(r"fixed: property=\S+ (\S+) (.*)", r["line"], re.S)
            status, what = f"fixed `{m.group(1)}`", m.group(2)
        else:
            status, what = "**known**", r["what"]
        what = what.replace("|", "/")
        out.append(f"| {r['id']} | {status} | {r['clause']} / {r.get('cause') or '-'} | {what} |")
    return "\n".join(out)


def seeds_table():
    from . import seedmeta
    buf = io.StringIO()
    with contextlib.redirect_stdout(buf):
        seedmeta.main()
    return buf.getvalue().strip()


def coverage_table():
    """section 11.4: what each quick run covered, from the evidence files of the last run"""
    rows = ["| id | tier | M (TLC distinct states) | J / G (real executions judged) | known-finding hits | s |", "|---|---|---|---|---|---|"]
    import glob
    for f in sorted(glob.glob(os.path.join(VERIF, "evidence", "[CX]*.json"))):
        e = json.load(open(f))
        c = e["coverage"]
        m = sum(r.get("distinct", 0) for r in c.get("model_checking_runs", []))
        tb = c.get("trace_batches", [])
        tr, ev, st = (sum(b.get(k, 0) for b in tb) for k in ("traces", "events", "states"))
        kn = c.get("known_findings_hit", {})
        kn = sum(kn.values()) if isinstance(kn, dict) else kn
        rows.append(f"| {e['property_id']} | {e['tier']} | {m:,} | {tr:,} traces / {ev:,} events, {st:,} judge states | {kn} | {round(e['wall_s'])} |")
    return "\n".join(rows)


def main():
    p = os.path.join(VERIF, "DESIGN.md")
    s = open(p).read()
    for tag, gen in (("FINDINGS", findings_table), ("SEEDS", seeds_table), ("COVERAGE", coverage_table)):
        a, b = f"<!-- {tag}-BEGIN -->", f"<!-- {tag}-END -->"
        if a in s:
            i, j = s.index(a) + len(a), s.index(b)
            s = s[:i] + "\n" + gen() + "\n" + s[j:]
    open(p, "w").write(s)


if __name__ == "__main__":
    main()
