"""Circuits: building them from program descriptions, projecting a CircuitDAG onto the spec's circuit record,
and observing the real compilers operation by operation (tracing subclasses - no edit of /repo needed).

Program description (what TLC dumps / what the random generators produce): a list of op specs
  {"k": kind, "r": [[type, idx], ...], "c": creg index (0-based) or None, "w": [gate class names] (wrappers)}
"""
from __future__ import annotations

import numpy as np

from . import project as pj

ONEQ = ["Identity", "Hadamard", "Phase", "PhaseDagger", "SigmaX", "SigmaY", "SigmaZ"]
TWOQ = ["CNOT", "CZ"]
CCTRL = ["ClassicalCNOT", "ClassicalCZ", "MeasurementCNOTandReset"]


def build_op(spec, noise=None):
    from graphiq.circuit import ops
    k = spec["k"]
    r = spec["r"]
    kw = {}
    if noise is not None:
        kw["noise"] = noise
    if k == "OneQubitGateWrapper":
        return ops.OneQubitGateWrapper([getattr(ops, g) for g in spec["w"]], register=r[0][1], reg_type=r[0][0], **kw)
    if k in ONEQ:
        return getattr(ops, k)(register=r[0][1], reg_type=r[0][0], **kw)
    if k in TWOQ:
        return getattr(ops, k)(control=r[0][1], control_type=r[0][0], target=r[1][1], target_type=r[1][0], **kw)
    if k in CCTRL:
        return getattr(ops, k)(control=r[0][1], control_type=r[0][0], target=r[1][1], target_type=r[1][0],
                               c_register=spec["c"], **kw)
    if k == "MeasurementZ":
        return ops.MeasurementZ(register=r[0][1], reg_type=r[0][0], c_register=spec["c"], **kw)
    raise ValueError(k)


def build_circuit(n_e, n_p, n_c, program):
    from graphiq.circuit.circuit_dag import CircuitDAG
    c = CircuitDAG(n_emitter=n_e, n_photon=n_p, n_classical=n_c)
    for spec in program:
        c.add(build_op(spec))
    return c


def edit_circuit(circuit, rng):
    """Apply one edit that creates nodes in the MIDDLE of a wire (node ids are then no longer in circuit order and the
    circuit is no longer what a sequence of add() calls gives): group / unwrap rewrites or 1-3 insert_at of a one-qubit
    gate on a random quantum edge, or 1-2 removals.  Returns the name of the edit; callers project the circuit AFTER it."""
    how = rng.choice(["group", "unwrap", "insert", "insert", "remove", "remove", "replace", "replace"])
    try:                                  # the circuit has been looked at before it is edited (anything it remembers is in place)
        circuit.sequence()
        circuit.sequence(unwrapped=True)
        _ = circuit.depth
    except Exception:
        pass
    if how == "replace":
        from graphiq.circuit import ops as gops
        cand = [n for n in circuit.dag.nodes if len(circuit.dag.nodes[n]["op"].q_registers) == 1
                and not isinstance(circuit.dag.nodes[n]["op"], gops.InputOutputOperationBase)
                and type(circuit.dag.nodes[n]["op"]).__name__ != "MeasurementZ"]
        for n0 in rng.sample(cand, min(len(cand), rng.randint(1, 2))):
            old = circuit.dag.nodes[n0]["op"]
            reg = [[old.q_registers_type[0], old.q_registers[0]]]
            if rng.random() < 0.5:
                spec = {"k": "OneQubitGateWrapper", "r": reg, "c": None, "w": rng.choice(library_wrappers())}
            else:
                spec = {"k": rng.choice([k for k in ONEQ if k != type(old).__name__]), "r": reg, "c": None}
            circuit.replace_op(n0, build_op(spec))
    elif how == "remove":
        from graphiq.circuit import ops as gops
        for _ in range(rng.randint(1, 2)):
            cand = [n for n in circuit.dag.nodes if not isinstance(circuit.dag.nodes[n]["op"], gops.InputOutputOperationBase)]
            if cand:
                circuit.remove_op(rng.choice(cand))
    elif how == "group":
        circuit.group_one_qubit_gates()
    elif how == "unwrap":
        circuit.unwrap_nodes()
    else:
        for _ in range(rng.randint(1, 3)):
            edges = [e for e in circuit.dag.edges(keys=True) if str(e[2])[0] in "ep"]
            e = rng.choice(edges)
            t, i = str(e[2])[0], int(str(e[2])[1:])
            op = build_op({"k": rng.choice(["Hadamard", "Phase", "SigmaX", "SigmaY", "PhaseDagger"]), "r": [[t, i]], "c": None})
            circuit.insert_at(op, [e])
    return how


def qindex(reg, reg_type, n_photons):
    """The textbook map: photons first, then emitters (1-based)."""
    return (reg if reg_type == "p" else reg + n_photons) + 1


def walk_wire(dag, reg_type, reg):
    """Node ids along the wire of one register, from its input to its output (exclusive)."""
    key = f"{reg_type}{reg}"
    node = f"{key}_in"
    out = []
    seen = set()
    while node != f"{key}_out":
        nxt = [v for _, v, k in dag.out_edges(node, keys=True) if k == key]
        if len(nxt) != 1:
            raise ValueError(f"wire {key}: node {node!r} has {len(nxt)} outgoing edges with that key")
        node = nxt[0]
        if node in seen:
            raise ValueError(f"wire {key}: cycle at {node!r}")
        seen.add(node)
        if node != f"{key}_out":
            out.append(node)
    return out


def project_circuit(circuit):
    """CircuitDAG -> the spec's circuit record (+ the node id of every op index)."""
    dag = circuit.dag
    n_p, n_e, n_c = circuit.n_photons, circuit.n_emitters, circuit.n_classical
    from graphiq.circuit import ops as gops
    nodes = [n for n in dag.nodes if not isinstance(dag.nodes[n]["op"], gops.InputOutputOperationBase)]
    nodes.sort(key=lambda x: (str(type(x)), x))
    idx = {n: i + 1 for i, n in enumerate(nodes)}
    wires = {}
    for t, cnt in (("p", n_p), ("e", n_e), ("c", n_c)):
        for i in range(cnt):
            wires[f"{t}{i}"] = [idx[n] for n in walk_wire(dag, t, i)]
    ops = []
    for n in nodes:
        op = dag.nodes[n]["op"]
        kind = type(op).__name__
        gates = [g.__name__ for g in op.operations] if kind == "OneQubitGateWrapper" else [kind]
        q = [qindex(r, t, n_p) for r, t in zip(op.q_registers, op.q_registers_type)]
        c = (op.c_registers[0] + 1) if len(op.c_registers) else 0
        ops.append({"kind": kind, "q": q, "c": c, "gates": gates})
    return {"nq": n_p + n_e, "nc": n_c, "np": n_p, "ne": n_e, "ops": ops, "wires": wires}, nodes


def state_obs(state, n):
    """QuantumState -> observation for Trace_CircuitRun."""
    from graphiq.backends.stabilizer.state import Stabilizer, MixedStabilizer
    from graphiq.backends.density_matrix.state import DensityMatrix
    rep = state.rep_data
    if isinstance(rep, Stabilizer):
        o = pj.tab_obs(rep.data)
        o["kind"] = "T"
        return o
    if isinstance(rep, MixedStabilizer):
        br = []
        for w, t in rep.mixture:
            r = pj.rat(w)
            if r is None:
                return {"err": "", "kind": "pv", "bad": f"NotRational weight {w!r}", "n": n, "vec": []}
            br.append({"w": [r["n"], r["d"]], "tab": pj.tab_obs(t)})
        return {"err": "", "kind": "mix", "branches": br}
    if isinstance(rep, DensityMatrix):
        o = pj.pv_obs(rep.data, n)
        o["kind"] = "pv"
        return o
    return {"err": "UnknownRepresentation:" + type(rep).__name__}


def make_tracing_compiler(base_cls, n_photons, n_quantum, log_state=True):
    """A subclass of a real compiler that logs every elementary operation the compile loop executes.  The register
    layout it projects with (trace_layout) belongs to the INSTANCE, so that one compiler object can be used for many
    circuits, as a user would."""
    from graphiq.circuit import ops as gops

    class Tracing(base_cls):
        def __init__(self, *a, **k):
            super().__init__(*a, **k)
            self.events = []
            self.creg_ref = None
            self.trace_layout = (n_photons, n_quantum)

        def _log(self, state, op, classical_registers, ev="exec", extra=None):
            self.creg_ref = classical_registers
            if isinstance(op, gops.InputOutputOperationBase):
                return
            kind = type(op).__name__
            n_photons_, n_quantum_now = self.trace_layout
            q = [qindex(r, t, n_photons_) for r, t in zip(op.q_registers, op.q_registers_type)]
            c = (op.c_registers[0] + 1) if len(op.c_registers) else 0
            e = {"ev": ev, "kind": kind, "q": q, "c": c,
                 "creg": [int(x) for x in np.asarray(classical_registers).tolist()],
                 "obs": state_obs(state, n_quantum_now) if log_state else {"err": "", "kind": "none"}}
            if extra:
                e.update(extra)
            self.events.append(e)

        def compile_one_gate(self, state, op, n_quantum_, q_index, classical_registers):
            super().compile_one_gate(state, op, n_quantum_, q_index, classical_registers)
            self._log(state, op, classical_registers)

    Tracing.__name__ = "Tracing" + base_cls.__name__
    Tracing.name = base_cls.name
    return Tracing


_COMPILER_POOL = {}
_COMPILE_COUNT = {}


def compile_traced(circuit, backend, setting, initial_state=None, seed=None):
    """Run the real compiler; -> (events incl. final 'done' / 'raised', returned state or None)."""
    from graphiq.backends.stabilizer.compiler import StabilizerCompiler
    from graphiq.backends.density_matrix.compiler import DensityMatrixCompiler
    base = StabilizerCompiler if backend == "stabilizer" else DensityMatrixCompiler
    n_q = circuit.n_quantum
    # most compiles go through ONE long-lived compiler object per backend (what a user does; anything a compiler keeps
    # between calls is then exercised), every fifth compile of a backend through a fresh one (counted per backend: a
    # common counter locks in phase with drivers that alternate backends or layouts)
    _COMPILE_COUNT[backend] = _COMPILE_COUNT.get(backend, 0) + 1
    if _COMPILE_COUNT[backend] % 5 == 0 or backend not in _COMPILER_POOL:
        comp = make_tracing_compiler(base, circuit.n_photons, n_q)()
        if backend not in _COMPILER_POOL:
            _COMPILER_POOL[backend] = comp
    else:
        comp = _COMPILER_POOL[backend]
    comp.events = []
    comp.creg_ref = None
    comp.trace_layout = (circuit.n_photons, n_q)
    comp.measurement_determinism = "probabilistic" if setting == 2 else setting
    if seed is not None:
        np.random.seed(seed)
    try:
        state = comp.compile(circuit, initial_state=initial_state) if initial_state is not None \
            else comp.compile(circuit)
    except Exception as ex:
        comp.events.append({"ev": "raised", "kind": type(ex).__name__, "obs": pj.err_obs(ex)})
        return comp.events, None
    creg = [int(x) for x in np.asarray(comp.creg_ref).tolist()] if comp.creg_ref is not None \
        else [0] * circuit.n_classical
    comp.events.append({"ev": "done", "creg": creg, "obs": state_obs(state, n_q)})
    return comp.events, state


# ----------------------------------------------------------------------------------------------------------
# random programs
def random_program(rng, n_e, n_p, n_c, length, wrappers=None, p_measure=0.25):
    regs = [["e", i] for i in range(n_e)] + [["p", i] for i in range(n_p)]
    prog = []
    last_mcr = None
    for _ in range(length):
        r = rng.random()
        if last_mcr is not None and rng.random() < 0.5:
            # bias: put a gate right after a measure-and-reset on the same emitter
            prog.append({"k": rng.choice(["Hadamard", "SigmaX", "Phase"]), "r": [last_mcr], "c": None})
            last_mcr = None
            continue
        if r < p_measure and n_c > 0:
            k = rng.choice(["MeasurementZ", "ClassicalCNOT", "ClassicalCZ", "MeasurementCNOTandReset"])
            c = rng.randrange(n_c)
            if k == "MeasurementZ":
                prog.append({"k": k, "r": [rng.choice(regs)], "c": c})
            elif len(regs) >= 2:
                a, b = rng.sample(regs, 2)
                prog.append({"k": k, "r": [a, b], "c": c})
                if k == "MeasurementCNOTandReset":
                    last_mcr = a
        elif r < p_measure + 0.25 and len(regs) >= 2:
            a, b = rng.sample(regs, 2)
            prog.append({"k": rng.choice(TWOQ), "r": [a, b], "c": None})
        elif r < p_measure + 0.40 and wrappers:
            prog.append({"k": "OneQubitGateWrapper", "r": [rng.choice(regs)], "c": None, "w": rng.choice(wrappers)})
        else:
            prog.append({"k": rng.choice(ONEQ), "r": [rng.choice(regs)], "c": None})
    return prog


ODD_WRAPPERS = [["Phase", "Phase"], ["Hadamard", "Hadamard"], ["PhaseDagger", "Identity", "PhaseDagger"],
                ["SigmaX", "SigmaX", "SigmaX"], ["Phase"], ["Identity"], ["SigmaZ", "SigmaZ"], ["SigmaY", "SigmaY"],
                ["Hadamard", "Phase", "Phase", "Hadamard"], ["PhaseDagger", "PhaseDagger"], ["Identity", "Identity"],
                ["Phase", "Phase", "Phase"], ["SigmaY", "Hadamard", "SigmaY"]]


def library_wrappers():
    """gate words for OneQubitGateWrapper: the library's 24 Clifford words plus words the library itself never builds
    (one gate repeated, identity padding, single gates, words equal to the identity)."""
    from graphiq.circuit import ops
    return [[g.__name__ for g in w] for w in ops.one_qubit_cliffords()] + [list(w) for w in ODD_WRAPPERS]


def compile_traces(circuit, tid, rng, settings=(0, 1, 2), backends=("stabilizer", "dm"), meta=None):
    """Trace_CircuitRun traces of compiling an existing circuit object (copied per run) with the real compilers."""
    out = []
    for backend in backends:
        for setting in settings:
            c = circuit.copy()
            circ, _ = project_circuit(c)
            events, _ = compile_traced(c, backend, setting, seed=rng.randrange(2 ** 31))
            tid += 1
            m = {"backend": backend, "setting": setting}
            m.update(meta or {})
            out.append({"tid": tid, "meta": m, "circ": circ, "setting": setting, "init": [], "events": events})
    return out, tid


def sequence_order(circuit, nodes):
    """Indices (1-based, as in project_circuit) of the non-IO operations in the order sequence() returns them."""
    import networkx as nx
    from graphiq.circuit import ops as gops
    seq = circuit.sequence()
    by_obj = {id(circuit.dag.nodes[n]["op"]): i + 1 for i, n in enumerate(nodes)}
    return [by_obj[id(op)] for op in seq if not isinstance(op, gops.InputOutputOperationBase)]


def all_graphs(n):
    import itertools
    import networkx as nx
    pairs = list(itertools.combinations(range(n), 2))
    for mask in range(1 << len(pairs)):
        g = nx.Graph()
        g.add_nodes_from(range(n))
        g.add_edges_from(p for k, p in enumerate(pairs) if (mask >> k) & 1)
        yield g


def graph_edges1(g):
    """edges of a graph on nodes 0..n-1 as sorted 1-based pairs."""
    return sorted([min(u, v) + 1, max(u, v) + 1] for u, v in g.edges() if u != v)


def target_state(graph, rep):
    """QuantumState holding |G> in the requested representation (nodes 0..n-1 = qubit order)."""
    import networkx as nx
    from graphiq.state import QuantumState
    from graphiq.backends.stabilizer.functions.rep_conversion import get_clifford_tableau_from_graph
    from graphiq.backends.state_rep_conversion import graph_to_density
    if rep == "g":
        return QuantumState(graph, rep_type="g")
    if rep == "s":
        return QuantumState(get_clifford_tableau_from_graph(graph), rep_type="s")
    return QuantumState(graph_to_density(graph), rep_type="dm")


def process_neighbours():
    """What else a process that uses graphiq has typically done before (and between) the calls a check makes: tableau
    conversions (they run synthesised circuits BACKWARDS), a forward circuit run, a small compile on both backends, a
    deterministic solve, an LC-orbit exploration, a metric evaluation, an export.  Nothing is judged here (the checks
    of those properties do that); what these calls leave behind in the library - module-level tables, default arguments,
    class-level caches - is then in place for the calls that ARE judged.  Global random states are restored afterwards."""
    import random
    import warnings
    import networkx as nx
    py_state, np_state = random.getstate(), np.random.get_state()
    try:
        with warnings.catch_warnings():
            warnings.simplefilter("ignore")
            from graphiq.backends.stabilizer.clifford_tableau import CliffordTableau
            from graphiq.backends.stabilizer.tableau import StabilizerTableau
            from graphiq.backends.stabilizer.functions.rep_conversion import clifford_from_stabilizer, get_clifford_tableau_from_graph
            import graphiq.backends.stabilizer.functions.transformation as tr
            from graphiq.backends.stabilizer.compiler import StabilizerCompiler
            from graphiq.backends.density_matrix.compiler import DensityMatrixCompiler
            from graphiq.metrics import Infidelity, CircuitDepth
            from graphiq.solvers.time_reversed_solver import TimeReversedSolver
            from graphiq.state import QuantumState
            import graphiq.utils.relabel_module as rm
            steps = [
                lambda: clifford_from_stabilizer(StabilizerTableau([np.array([[1]]), np.array([[1]])], np.array([0]))),
                lambda: CliffordTableau(StabilizerTableau([np.array([[1, 0], [1, 1]]), np.array([[1, 1], [0, 1]])], np.array([0, 1]))),
                lambda: get_clifford_tableau_from_graph(nx.path_graph(3)),
                lambda: tr.run_circuit(CliffordTableau(2), [("H", 0), ("P", 0), ("CNOT", 0, 1), ("P_dag", 1)]),
                lambda: rm.lc_orbit_finder(nx.path_graph(4), comp_depth=2, orbit_size_thresh=4),
                lambda: rm.depth_first_orbit(nx.star_graph(3)),
            ]

            def solve_and_compile():
                target = QuantumState(get_clifford_tableau_from_graph(nx.cycle_graph(4)), rep_type="s")
                comp = StabilizerCompiler()
                comp.measurement_determinism = 1
                solver = TimeReversedSolver(target=target, metric=Infidelity(target), compiler=comp)
                solver.solve()
                circuit = solver.result[1]
                for c in (StabilizerCompiler(), DensityMatrixCompiler()):
                    c.measurement_determinism = 1
                    st = c.compile(circuit)
                    st.partial_trace(keep=list(range(circuit.n_photons)), dims=circuit.n_quantum * [2])
                CircuitDepth().evaluate(None, circuit)
                circuit.to_openqasm()
                circuit.copy().unwrap_nodes()
            steps.append(solve_and_compile)
            for f in steps:
                try:
                    f()
                except Exception:
                    pass
    finally:
        random.setstate(py_state)
        np.random.set_state(np_state)


def trs_pool(rare_first=True):
    """Solver targets chosen by execution coverage of the deterministic solver (engine/covpool.py, committed list
    /verif/pools/trs_targets.json): labelled 5 - 7 vertex graphs, those that reach rarely executed solver code first."""
    import json
    import os
    import networkx as nx
    path = os.path.join(os.path.dirname(os.path.dirname(os.path.abspath(__file__))), "pools", "trs_targets.json")
    if not os.path.exists(path):
        return []
    d = json.load(open(path))
    rare = set(d.get("rarely_executed", {}))
    out = []
    for rec in d["graphs"]:
        g = nx.Graph()
        g.add_nodes_from(range(rec["n"]))
        g.add_edges_from(rec["edges"])
        out.append((len(set(rec.get("rare_transitions", []))), g))
    if rare_first:
        out.sort(key=lambda t: -t[0])
    return [g for _, g in out]


def inv_pool():
    """Generating sets (rows {"s","p"}) of 5 - 7 qubit stabilizer states chosen by execution coverage of the circuit
    synthesis (engine/covpool.py inv, /verif/pools/inv_states.json), those reaching rarely executed code first."""
    import json
    import os
    path = os.path.join(os.path.dirname(os.path.dirname(os.path.abspath(__file__))), "pools", "inv_states.json")
    if not os.path.exists(path):
        return []
    d = json.load(open(path))
    rare = set(d.get("rarely_executed", {}))
    recs = sorted(d["states"], key=lambda r: -len(r.get("rare_transitions", [])))
    return [r["rows"] for r in recs]


# ----------------------------------------------------------------------------------------------------------
# full structural projection of a CircuitDAG (C12 / C04 / C18)
def _nid(n):
    return n if isinstance(n, str) else str(n)


def op_content(op):
    kind = type(op).__name__
    gates = [g.__name__ for g in op.operations] if kind == "OneQubitGateWrapper" else [kind]
    q = [f"{t}{r}" for r, t in zip(op.q_registers, op.q_registers_type)]
    return {"kind": kind, "q": q, "qt": list(op.q_registers_type), "qi": [int(r) for r in op.q_registers],
            "c": [f"c{r}" for r in op.c_registers], "ci": [int(r) for r in op.c_registers], "gates": gates}


def dag_obs(circuit, incompat_edges=None):
    """Everything CircuitDAG holds, as plain data."""
    from graphiq.circuit import ops as gops
    dag = circuit.dag
    nodes = []
    for n in dag.nodes:
        op = dag.nodes[n]["op"]
        if isinstance(op, gops.Input):
            nodes.append({"id": _nid(n), "io": "in", "kind": "Input", "q": [], "qt": [], "c": [], "gates": [], "labels": []})
        elif isinstance(op, gops.Output):
            nodes.append({"id": _nid(n), "io": "out", "kind": "Output", "q": [], "qt": [], "c": [], "gates": [], "labels": []})
        else:
            c = op_content(op)
            nodes.append({"id": _nid(n), "io": "", "kind": c["kind"], "q": c["q"], "qt": c["qt"], "c": c["c"],
                          "gates": c["gates"], "labels": [str(x) for x in op.labels]})
    edges = [{"u": _nid(u), "v": _nid(v), "key": str(k), "rt": str(d.get("reg_type")), "r": int(d.get("reg"))}
             for u, v, k, d in dag.edges(keys=True, data=True)]
    node_dict = {str(k): [_nid(x) for x in v] for k, v in circuit.node_dict.items()}
    def e3(e):
        # an index entry that is not a (u, v, key) triple is shown as it is, padded: the spec then finds no such edge
        e = tuple(e) if isinstance(e, (tuple, list)) else (e,)
        return [_nid(e[0]) if len(e) > 0 else "?", _nid(e[1]) if len(e) > 1 else "?", str(e[2]) if len(e) > 2 else "?"]
    edge_dict = {str(k): [e3(e) for e in v] for k, v in circuit.edge_dict.items()}
    regs = circuit.register
    o = {"err": "", "nodes": nodes, "edges": edges, "node_dict": node_dict, "edge_dict": edge_dict,
         "regs": {"e": len(regs["e"]), "p": len(regs["p"]), "c": len(regs["c"])},
         "seq": [], "incompat": []}
    try:
        objs = {id(dag.nodes[n]["op"]): _nid(n) for n in dag.nodes}
        o["seq"] = [objs[id(op)] for op in circuit.sequence()]
    except Exception as ex:          # sequence() raises on a cyclic graph: the structure itself is the observation
        o["seq"] = []
        o["seq_err"] = type(ex).__name__
    for e in incompat_edges or []:
        try:
            inc = circuit.find_incompatible_edges(e)
            o["incompat"].append({"e": [_nid(e[0]), _nid(e[1]), str(e[2])],
                                  "inc": [[_nid(x[0]), _nid(x[1]), str(x[2])] for x in inc]})
        except Exception:
            pass
    return o
