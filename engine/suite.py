"""Runs the repository's pinned test suite (guards off) on a tree and lists stable tests that no longer pass.
`python -m engine.suite [repo_dir]` - exit 0 iff every BASELINE stable test passes."""
import json
import os
import subprocess
import sys
import tempfile
import xml.etree.ElementTree as ET


def run(repo="/repo", paths=None):
    base = json.load(open("/root/.vp/BASELINE.json"))
    stable = set(base["stable_pass"])
    fd, x = tempfile.mkstemp(suffix=".xml")
    os.close(fd)
    env = {k: v for k, v in os.environ.items() if k != "GRAPHIQ_VERIF"}
    env["MPLBACKEND"] = "Agg"
    subprocess.run(f"cd {repo} && /venv/bin/python -m pytest -ra -q -p no:cacheprovider --timeout=900 "
                   f"--continue-on-collection-errors --junitxml={x} {' '.join(paths or [])}", shell=True, env=env,
                   stdout=subprocess.DEVNULL, stderr=subprocess.DEVNULL, timeout=7200)
    passed = set()
    for tc in ET.parse(x).getroot().iter("testcase"):
        if not any(c.tag in ("failure", "error", "skipped") for c in tc):
            passed.add(f"{tc.get('classname')}::{tc.get('name')}")
    os.unlink(x)
    ids = {s for s in stable}
    if paths:
        # only the stable tests that live under the selected paths were run
        mods = [p_.rstrip("/").replace("/", ".").replace(".py", "") for p_ in paths]
        ids = {s for s in ids if any(s.startswith(m + ".") or s.startswith(m + "::") for m in mods)}
    # BASELINE ids may be in 'file::name' or 'classname::name' form; compare on the (module tail, name) pair
    def norm(s):
        a, _, b = s.rpartition("::")
        return (a.replace("/", ".").replace(".py", "").split(".")[-1], b)
    p = {norm(s) for s in passed}
    missing = sorted(s for s in ids if norm(s) not in p)
    return len(ids) - len(missing), missing


if __name__ == "__main__":
    ok, missing = run(sys.argv[1] if len(sys.argv) > 1 else "/repo")
    print(f"stable passing {ok}; failing {missing}")
    sys.exit(1 if missing else 0)
