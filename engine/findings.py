"""Known findings: /verif/KNOWN_FINDINGS.jsonl, read-only at run time.

One JSON object per line:
  {"id": "C09-1", "property": "C09", "status": "known" | "fixed",
   "clause": <rejecting clause>, "cause": <cause string computed by the spec, may be "">,
   "where": {<key>: <value> ...}   # optional: must equal the same keys of the trace's "meta"
   "what": "...", "witness": {...specific failing input...}}
A rejection is matched by clause + spec-computed cause (+ where), never by property id alone.
Entries with status "fixed" suppress nothing.
"""
from __future__ import annotations

import json
import os

VERIF = os.path.dirname(os.path.dirname(os.path.abspath(__file__)))
PATH = os.path.join(VERIF, "KNOWN_FINDINGS.jsonl")


def load(pid: str) -> list:
    out = []
    if not os.path.exists(PATH):
        return out
    with open(PATH) as f:
        for line in f:
            line = line.strip()
            if not line or line.startswith("#"):
                continue
            e = json.loads(line)
            if e.get("property") == pid and e.get("status") == "known":
                out.append(e)
    return out


def match(known: list, reject: dict, trace: dict):
    meta = trace.get("meta", {}) or {}
    for e in known:
        if e.get("clause") != reject.get("clause"):
            continue
        if e.get("cause", "") != (reject.get("cause", "") or ""):
            continue
        where = e.get("where", {})
        if all(meta.get(k) == v for k, v in where.items()):
            return e
    return None
