"""Run checks against a seeded change (python -m engine.seedtest <seed-dir> C07 [C01 ...]).

Default: a scratch worktree of /repo's HEAD gets the patch and the checks import graphiq from it (VERIF_REPO), with
evidence and replays redirected to a scratch directory (VERIF_OUT) - /repo and /verif/evidence are not touched, so several
seeds can be tried at once.  With SEED_INPLACE=1 the patch is applied to /repo itself (git apply ... git checkout -- .),
exactly as an outside evaluator would do it; evidence is then rewritten by the seeded run and must be refreshed after."""
import json
import os
import shutil
import subprocess
import sys
import time

VERIF = os.path.dirname(os.path.dirname(os.path.abspath(__file__)))


def sh(cmd, **kw):
    return subprocess.run(cmd, shell=True, capture_output=True, text=True, **kw)


def main():
    seed_dir = os.path.abspath(sys.argv[1])
    pids = sys.argv[2:]
    tier = os.environ.get("SEED_TIER", "quick")
    inplace = os.environ.get("SEED_INPLACE") == "1"
    patch = os.path.join(seed_dir, "patch.diff")
    name = os.path.basename(seed_dir)
    env = dict(os.environ)
    if inplace:
        tree = "/repo"
        assert sh("git -C /repo status --porcelain --untracked-files=no").stdout.strip() == "", "/repo not clean"
    else:
        tree = f"/tmp/seedwt-{name}-{os.getpid()}"
        out = f"/tmp/seedout-{name}-{os.getpid()}"
        r = sh(f"git -C /repo worktree add -q --detach {tree} HEAD")
        assert r.returncode == 0, r.stderr
        os.makedirs(out, exist_ok=True)
        env.update({"VERIF_REPO": tree, "VERIF_OUT": out})
    results = {}
    try:
        r = sh(f"git -C {tree} apply {patch}")
        if r.returncode != 0:
            print("patch does not apply:", r.stderr)
            return 2
        for pid in pids:
            t0 = time.time()
            p = sh(f"cd {VERIF} && /venv/bin/python -m engine.check {pid} --tier {tier}", timeout=7200, env=env)
            viol = [l for l in p.stdout.splitlines() if l.startswith("VIOLATION")]
            results[pid] = {"exit": p.returncode, "violations": len(viol), "first": viol[:2],
                            "wall_s": round(time.time() - t0)}
            print(name, pid, "exit", p.returncode, "violations", len(viol), viol[0][:260] if viol else "", flush=True)
            if p.returncode == 2:
                print(p.stderr[-1500:])
    finally:
        if inplace:
            sh("git -C /repo checkout -- .")
        else:
            sh(f"git -C /repo worktree remove --force {tree}")
            shutil.rmtree(out, ignore_errors=True)
    outp = os.path.join(seed_dir, "detection.json")
    old = json.load(open(outp)) if os.path.exists(outp) else {}
    old.update({f"{k}:{tier}": v for k, v in results.items()})
    json.dump(old, open(outp, "w"), indent=1)
    return 0


if __name__ == "__main__":
    sys.exit(main())
