"""Apply a seeded change to /repo, run checks against it, undo it (python -m engine.seedtest <seed-dir> C07 [C01 ...])."""
import json
import os
import subprocess
import sys
import time

VERIF = os.path.dirname(os.path.dirname(os.path.abspath(__file__)))


def sh(cmd, **kw):
    return subprocess.run(cmd, shell=True, capture_output=True, text=True, **kw)


def main():
    seed_dir = os.path.abspath(sys.argv[1])
    pids = sys.argv[2:]
    tier = os.environ.get("SEED_TIER", "quick")
    patch = os.path.join(seed_dir, "patch.diff")
    assert sh("git -C /repo status --porcelain --untracked-files=no").stdout.strip() == "", "/repo not clean"
    r = sh(f"git -C /repo apply {patch}")
    if r.returncode != 0:
        print("patch does not apply:", r.stderr)
        return 2
    results = {}
    try:
        for pid in pids:
            t0 = time.time()
            p = sh(f"cd {VERIF} && /venv/bin/python -m engine.check {pid} --tier {tier}", timeout=7200)
            viol = [l for l in p.stdout.splitlines() if l.startswith("VIOLATION")]
            results[pid] = {"exit": p.returncode, "violations": len(viol), "first": viol[:2],
                            "wall_s": round(time.time() - t0)}
            print(pid, "exit", p.returncode, "violations", len(viol), viol[0][:260] if viol else "", flush=True)
            if p.returncode == 2:
                print(p.stderr[-1500:])
    finally:
        sh("git -C /repo checkout -- .")
    out = os.path.join(seed_dir, "detection.json")
    old = json.load(open(out)) if os.path.exists(out) else {}
    old.update({f"{k}:{tier}": v for k, v in results.items()})
    json.dump(old, open(out, "w"), indent=1)
    return 0


if __name__ == "__main__":
    sys.exit(main())
