"""Inputs for the stabilizer-state properties: TLC enumerates the states (MC_Stab), python only picks
generating sets / destabilizers for them.  Whatever is picked is re-validated by TLC (clause InputInvalid),
so nothing about the construction is trusted.
"""
from __future__ import annotations

import itertools
import json

import numpy as np

COUNTS = {1: 6, 2: 60, 3: 1080, 4: 36720}


def enumerate_groups(ctx, n):
    """All stabilizer states on n qubits as lists of {"s","p"} (the whole group), straight from TLC."""
    cfg = f"CONSTANT N = {n}\nSPECIFICATION Spec\nINVARIANT Valid\nINVARIANT Dump\n"
    r = ctx.mc("MC_Stab", cfg, tag=f"dumpN{n}", workers=1, expect_distinct=COUNTS[n])
    return [json.loads(p[1]) for p in r.prints if p[0] == "GRP"]


def xz(p):
    return [1 if a in (1, 3) else 0 for a in p] + [1 if a in (2, 3) else 0 for a in p]


def gf2_rank(rows):
    m = [int("".join(map(str, r)), 2) for r in rows if any(r)]
    rank = 0
    while m:
        piv = max(m)
        if piv == 0:
            break
        rank += 1
        hb = piv.bit_length() - 1
        m = [x ^ piv if (x >> hb) & 1 else x for x in m if x != piv]
        m = [x for x in m if x]
    return rank


def anticommute(p, q):
    return sum(1 for a, b in zip(p, q) if a and b and a != b) % 2 == 1


def random_basis(rng, group):
    """n independent elements of the group in random order."""
    n = len(group[0]["p"])
    els = [g for g in group if any(g["p"])]
    while True:
        pick = rng.sample(els, n)
        if gf2_rank([xz(g["p"]) for g in pick]) == n:
            return pick


def all_bases(group):
    n = len(group[0]["p"])
    els = [g for g in group if any(g["p"])]
    for pick in itertools.permutations(els, n):
        if gf2_rank([xz(g["p"]) for g in pick]) == n:
            yield list(pick)


def random_destabilizers(rng, stab):
    """Signed Paulis D_j: anticommute with S_j only, commute among themselves; chosen at random by brute force."""
    n = len(stab)
    strings = list(itertools.product(range(4), repeat=n))
    ds = []
    for j in range(n):
        cands = [list(p) for p in strings
                 if all(anticommute(p, stab[k]["p"]) == (k == j) for k in range(n))
                 and all(not anticommute(p, d["p"]) for d in ds)]
        ds.append({"s": rng.randint(0, 1), "p": rng.choice(cands)})
    return ds


def stabilizer_tableau(rows):
    from graphiq.backends.stabilizer.tableau import StabilizerTableau
    n = len(rows)
    x = np.array([[1 if a in (1, 3) else 0 for a in r["p"]] for r in rows], dtype=int)
    z = np.array([[1 if a in (2, 3) else 0 for a in r["p"]] for r in rows], dtype=int)
    return StabilizerTableau([x, z], np.array([r["s"] for r in rows], dtype=int))


def gate_list_obs(circ):
    """graphiq gate tuples ('H', q) / ('CNOT', c, t) -> [{"g","a","b"}] (1-based)."""
    out = []
    for g in circ:
        name = {"P_dag": "PD"}.get(g[0], g[0])
        out.append({"g": name, "a": int(g[1]) + 1, "b": int(g[2]) + 1 if len(g) > 2 else 0})
    return out


_PH = {(1, 3): 1, (3, 2): 1, (2, 1): 1, (3, 1): 3, (2, 3): 3, (1, 2): 3}


def pauli_mul(g, h):
    """product of two COMMUTING signed Paulis {"s","p"} (harness helper; results are re-validated by TLC)."""
    k = 0
    p = []
    for a, b in zip(g["p"], h["p"]):
        if a and b and a != b:
            k += _PH[(a, b)]
        x = (1 if a in (1, 3) else 0) ^ (1 if b in (1, 3) else 0)
        z = (1 if a in (2, 3) else 0) ^ (1 if b in (2, 3) else 0)
        p.append(x + 2 * z)
    k %= 4
    assert k in (0, 2)
    return {"s": (g["s"] + h["s"] + k // 2) % 2, "p": p}


def graph_generators(g, n):
    rows = []
    for v in range(n):
        p = [0] * n
        p[v] = 1
        for u in g.neighbors(v):
            p[u] = 2
        rows.append({"s": 0, "p": p})
    return rows


def random_regauge(rng, rows, steps=None):
    """another generating set of the same group: random invertible row operations."""
    rows = [dict(r) for r in rows]
    n = len(rows)
    for _ in range(steps if steps is not None else 2 * n):
        i, j = rng.randrange(n), rng.randrange(n)
        if i != j:
            rows[i] = pauli_mul(rows[i], rows[j])
    rng.shuffle(rows)
    return rows


def random_state_rows(rng, n, depth=None):
    """generators of a random n-qubit stabilizer state: a random H / S / CNOT circuit applied to |0..0> with the
    textbook (Aaronson-Gottesman) update rules in plain Python - independent of graphiq; the result is only an INPUT
    (TLC validates every state it is handed) and is re-gauged at random."""
    x = [[0] * n for _ in range(n)]
    z = [[1 if i == j else 0 for j in range(n)] for i in range(n)]
    s = [rng.randrange(2) for _ in range(n)]
    for _ in range(depth if depth is not None else rng.randint(3 * n, 8 * n)):
        r = rng.random()
        if r < 0.3 or n == 1:
            q = rng.randrange(n)
            for i in range(n):
                s[i] ^= x[i][q] & z[i][q]
                x[i][q], z[i][q] = z[i][q], x[i][q]
        elif r < 0.55:
            q = rng.randrange(n)
            for i in range(n):
                s[i] ^= x[i][q] & z[i][q]
                z[i][q] ^= x[i][q]
        else:
            c, t = rng.sample(range(n), 2)
            for i in range(n):
                s[i] ^= x[i][c] & z[i][t] & (x[i][t] ^ z[i][c] ^ 1)
                x[i][t] ^= x[i][c]
                z[i][c] ^= z[i][t]
    rows = [{"s": s[i], "p": [x[i][q] + 2 * z[i][q] for q in range(n)]} for i in range(n)]
    return random_regauge(rng, rows)


def conj_rows(rows, gate, a, b=None):
    """rows conjugated by H / S on qubit a or CNOT(a, b) (0-based), textbook rules; plain Python, signs included."""
    out = []
    for r in rows:
        x = [1 if v in (1, 3) else 0 for v in r["p"]]
        z = [1 if v in (2, 3) else 0 for v in r["p"]]
        s = r["s"]
        if gate == "H":
            s ^= x[a] & z[a]
            x[a], z[a] = z[a], x[a]
        elif gate == "S":
            s ^= x[a] & z[a]
            z[a] ^= x[a]
        else:
            s ^= x[a] & z[b] & (x[b] ^ z[a] ^ 1)
            x[b] ^= x[a]
            z[a] ^= z[b]
        out.append({"s": s, "p": [x[q] + 2 * z[q] for q in range(len(x))]})
    return out
