"""pid -> (technique, level text, level note, design ref) for every check that is built."""
REGISTRY = {
    "C07": (
        "TLA+ spec (StabState/Tableau) model-checked by TLC; TLC-enumerated tableaux replayed into the real API; "
        "random API histories trace-validated by TLC",
        "TLC enumerates all stabilizer states (N<=2 quick, N<=4 thorough) and all 11,520 two-qubit Clifford tableaux; "
        "every tableau-API action is applied by the real code from enumerated tableaux and along random histories, and "
        "TLC judges each observed tableau (binary, symplectic/paired, hermitian stabilizers, group = textbook successor).",
        "", "DESIGN.md 6/C07"),
    "C01": (
        "TLA+ spec of circuit execution (CircuitRun over stabilizer-group ensembles) model-checked by TLC on all short "
        "programs; the same programs and random circuits compiled by both real compilers and trace-validated by TLC",
        "TLC explores every program of <= 2 (quick) / 3 (thorough) operations over the full alphabet on 1e+1p+1c, every "
        "execution order and outcome (confluence, reset, record); each program and random circuits up to 4 qubits are "
        "compiled by both backends under forced-0 / forced-1 / probabilistic settings; per-operation traces (op, creg "
        "copy, projected state) are judged by TLC against textbook semantics, TLC infers the operation and outcome.",
        "", "DESIGN.md 6/C01"),
    "C05": (
        "TLC-enumerated stabilizer states fed to the real fidelity / equality / canonical-form code; results judged by TLC "
        "against the group-level definition; fidelity lemmas model-checked on all ordered pairs",
        "All 6/60 states (all ordered pairs), 1080 states (sampled pairs quick, all 1080^2 thorough) and sampled 4-6 qubit states against related states, in random "
        "generating sets with random destabilizers; TLC checks value = |<a|b>|^2, symmetry, 1 iff equal, equality, "
        "canonical form (same state, unique), Infidelity metric, sign-flip near misses.",
        "", "DESIGN.md 6/C05"),
    "C11": (
        "TLC-enumerated stabilizer states / graphs fed to the real inverse-circuit synthesis; the returned gate list is "
        "executed by the spec's gate semantics in TLC",
        "Every stabilizer state on <= 3 qubits in several generating sets, sampled 5-7 qubit states (4-7 in thorough), every "
        "labelled graph on <= 4 (5) vertices: inverse circuit maps the group to +Z^n, reverse run / "
        "clifford_from_stabilizer / CliffordTableau(StabilizerTableau) / graph tableau are valid tableaux of that state.",
        "", "DESIGN.md 6/C11"),
    "C02": (
        "real solver output circuits given to TLC as data and executed by the spec over every measurement-outcome branch; "
        "the same circuits compiled by both real compilers and trace-validated",
        "Every labelled graph on <= 4 (quick) / <= 5 + samples of 6, 7 (thorough) vertices and disjoint unions of 2-4 vertex blocks (n <= 8) as graph / stabilizer / dm "
        "target: TLC explores all outcome combinations of the returned circuit (photons = |G>, emitters |0>, order is a "
        "linearisation, score 0); compile traces of both backends under forced / random outcomes follow the spec.",
        "", "DESIGN.md 6/C02"),
    "C03": (
        "TLC-enumerated states / graphs fed to the real height functions, judged by TLC against the group-level entropy; "
        "cut-rank lemma model-checked on all graphs; emitter count of solver circuits checked by TLC",
        "All stabilizer states n <= 3 in many generating sets, all labelled graphs n <= 4 (5) and 6-8 vertex graphs (half with cut blocks whose real and GF(2) rank differ): height[k] = entanglement "
        "entropy (gauge free), height_max, determine_n_emitters, emitter_sorted; solver circuits use exactly max-height "
        "emitters and emit each photon once; MC_GraphCut: entropy = GF(2) cut rank for every graph.",
        "", "DESIGN.md 6/C03"),
    "C12": (
        "TLA+ wire machine model-checked over all short edit histories; random edit histories on the real CircuitDAG "
        "trace-validated by TLC on the complete projected structure after every edit",
        "MC_CircuitDag explores all add / insert-at-compatible-pair / remove histories (3 registers, bounded ops/depth): "
        "acyclic, compatibility rule sound. Real histories (add, insert_at, remove, replace, unwrap, group, "
        "remove_identity, add register, illegal add) from empty / benchmark / solver circuits: after EVERY edit TLC checks "
        "Acyclic, sources/sinks, WireIsPath, node_dict / edge_dict agreement, topological sequence, CompatSound on "
        "find_incompatible_edges, register counts, and that the edit moved nothing else.",
        "", "DESIGN.md 6/C12"),
    "C18": (
        "metric definitions written in TLA+ over the projected operation list; every metric class evaluated by the real "
        "code (default and explicit penalty) and compared by TLC",
        "Random emission-style circuits with wrappers / identities / resets, benchmark circuits and solver outputs; all 8 "
        "metric classes x default / affine penalty + register_depth; InputUnchanged.",
        "", "DESIGN.md 6/C18"),
    "C04": (
        "TLA+ model of the six mutation moves as guarded wire edits, model-checked over all move sequences; the real move "
        "functions applied to real circuits and trace-validated by TLC after every move",
        "MC_Moves: all emission / measurement assignments x all move sequences to depth 3 (quick) / 4 (thorough) on 2e+2p: "
        "EmissionShape, acyclic, fixed ops stay. Real histories of all six moves on evolutionary initial circuits and "
        "time-reversed solver outputs: valid circuit, EmissionShape, FixedPreserved, CandidatesSound (selector pairs "
        "legal and acyclic), MoveEffect.",
        "", "DESIGN.md 6/C04"),
    "C08": (
        "enumerated graphs / TLC-enumerated stabilizer states fed to the real conversion functions; outputs judged by TLC "
        "against the spec's graph state (group / exact Pauli vector)",
        "All labelled graphs n <= 4 (5 thorough; dm legs n <= 4): graph->dm, graph->stabilizer, dm->graph, "
        "stabilizer->graph in several generating sets, all 9 ordered representation pairs of convert_representation; all "
        "stabilizer states n <= 3 and sampled 4-6 qubit states (harness-built Clifford tableaux): state_to_graph gates map "
        "the state onto the returned graph state with signs; graphs whose node insertion order is not the label order.",
        "", "DESIGN.md 6/C08"),
    "C09": (
        "LC orbit computed by TLC as the local-complementation fixpoint (ground truth); real decision procedure, gate "
        "lists and complementation sequences judged against it; LC lemmas model-checked",
        "Every ordered pair of labelled graphs n <= 4 (n = 5 all start graphs, n = 6 sampled in thorough): Soundness, "
        "Completeness, returned Cliffords executed by the spec on |G1> (exact signs), returned sequence folded over G1, "
        "local complementation (function, copy, in place); graphs / adjacency matrices / tableaux; both modes; lc_check on "
        "stabilizer states with signs and local Cliffords (both tableau classes, validate on/off).",
        "", "DESIGN.md 6/C09"),
    "C16": (
        "real relabel / iso_finder / orbit explorers on enumerated graphs; TLC judges by explicit permutation search and "
        "membership in the local-complementation fixpoint orbit",
        "All labelled graphs n <= 4 (5, sampled 6 in thorough): RelabelOK for all permutations, MapIsIso, iso_finder "
        "settings grid (InputFirst, PairwiseDistinct, AllIsomorphic, NeverMoreThanRequested), lc_orbit_finder flag grid, "
        "rgs / linear / depth-first explorers: OrbitMember, OrbitDistinct; 7-10 vertex instances judged with certificates "
        "(permutation per isomorph, complementation sequence per orbit member) that TLC verifies.",
        "", "DESIGN.md 6/C16"),
    "C20": (
        "TLA+ model of the single-qubit Clifford group (signed-axis maps) model-checked for closure; library lists, "
        "simplification and both backends' wrapper order judged by TLC",
        "Closure machine reaches exactly 24 elements; the library's 24 lists = their matrices, distinct, closed; "
        "simplify_local_clifford on all 24x24 concatenations and all words <= 4 (6); non-Clifford rejected; every wrapper "
        "on either register type compiled by both backends on a Bell pair (Choi state) follows last-listed-acts-first.",
        "", "DESIGN.md 6/C20"),
    "C10": (
        "real AlternateTargetSolver results given to TLC: each circuit executed by the spec over every outcome branch "
        "against the relabelled target; listed graphs checked against the complementation-fixpoint orbit",
        "Connected targets n <= 4 (5, sampled 6 thorough) x settings grid (n_iso, n_lc, all LC-orbit methods, seeds) and "
        "the default constructor; returned list and solver.result: Generates(Relabel(target, map)) in all branches, "
        "EmissionShape, MapIsPerm, ListedLC, NoDuplicateGraphs.",
        "", "DESIGN.md 6/C10"),
    "C13": (
        "API-call histories over a heap of circuits / states; the behaviour of every live object logged after every call "
        "and judged by a TLA+ frame condition (write sets) and rewrite-preservation clauses",
        "Random interleavings of copy, unwrap, group, remove_identity, assign_noise (empty / non-empty), Monte-Carlo "
        "assign_noise, compile (both backends, noise on/off), metrics, solver run, compare, export: FrameOK for every "
        "object outside the write set (operations with noise descriptors, openQASM text, compiled state), RewriteOK, "
        "DeterministicCompile, NoisyCopyOK.",
        "", "DESIGN.md 6/C13"),
    "C15": (
        "circuit semantics (set of final states over all outcome branches, up to same-type register renaming) computed "
        "by TLC from the projected circuits; the real comparison / de-duplication verdicts judged against it",
        "Random base circuits x near-miss variants (swap control/target, reorder, rewrap, identities, rename registers, "
        "other creg, change / drop a gate) x methods (direct, is_isomorphic, GED on tiny circuits, "
        "check_redundant_circuit) in both argument orders; remove_redundant_circuits and CircuitStorage on shuffled "
        "lists: SoundEq, Symmetric, ReflexiveOnCopy, WrapInsensitive, IdentityInsensitive, DedupComplete.",
        "", "DESIGN.md 6/C15"),
    "C14": (
        "TLA+ syntax and standard denotation of the emitted openQASM subset (Qasm.tla); exported text parsed by an "
        "independent tokenizer and executed by the spec; re-imported circuits compared per wire and semantically by TLC",
        "All TLC-enumerated programs of <= 2 operations on 1e+1p+1c and random circuits with all 24 wrappers, P-dagger, "
        "identities, all classically controlled forms, several classical registers: QasmDenotes (standard semantics over "
        "all outcome branches = circuit semantics), Qasm / JsonRoundTrip (registers, expanded per-wire sequences), "
        "attributes agree with wires, CompiledSame, Deterministic export.",
        "", "DESIGN.md 6/C14"),
    "C19": (
        "TLA+ model of the generation loop over a heap of circuit objects model-checked (copies vs references); real "
        "solver runs recorded per generation and trace-validated, with twin runs for reproducibility",
        "MC_Evo: all behaviours of 2 members x 2 hall-of-fame slots x 2-3 generations with in-place mutation, insertion "
        "rule and optional selection: HofSorted, HofHonest, HofPrivate, BestMonotone. Real evolutionary / hybrid runs "
        "(both compilers, selection / adaptive on-off, hall-of-fame sizes): HofSorted, HofHonest, BestMonotone with every stored circuit "
        "re-scored by a fresh compiler, HofFromKnown, ResultIsBest, LogsMonotone, ReproducibleInProcess and "
        "ReproducibleAcrossProcesses (fresh interpreters with other hash seeds); update_hof driven directly with synthetic "
        "populations incl. near-tied scores, judged per update (HofSorted, HofFromKnown, BestKept; agreement with the insertion rule of MC_Evo as information).",
        "", "DESIGN.md 6/C19"),
    "C17": (
        "exact values of fidelity / trace distance / reduced states computed by the spec on stabilizer mixtures "
        "(rational weights) and compared with the real numeric code; relational laws checked by TLC on fixed-point numbers",
        "Mixtures of TLC-enumerated stabilizer states on n <= 3 qubits (pure, commuting, non-commuting, complex): "
        "PureOverlap, PureMixedOverlap, UhlmannCommuting, TraceDistCommuting, PartialTraceOK for every kept subset, "
        "InfidelityCrossRep on all 60^2 two-qubit pairs (sampled quick) x 4 representation combinations; symmetry, range, "
        "F = 1 iff equal, triangle inequality, Fuchs - van de Graaf on generic random density matrices.",
        "Exact only on stabilizer mixtures; generic matrices: relational laws at 1e-4; trusted: numpy inside graphiq, "
        "projections, TLC", "DESIGN.md 6/C17"),
    "C06": (
        "TLA+ ensemble semantics with exact rational weights (depolarizing, Pauli error, photon loss, before/after "
        "placement); both real backends compiled with noise on and compared by TLC through exact Pauli vectors",
        "Random circuits (<= 3 qubits) x noise assignments on the dyadic grid (p in {0,3/16,3/8,3/4}, r in {0,1/4,1/2,1}, "
        "Pauli errors, before/after, control/target separately), with and without measurements: PSD, TraceOK = product of "
        "survival probabilities, BackendsAgree (exact Pauli vectors), NoiselessOK for zero strength / empty map / switch "
        "off against the spec's noiseless run; the spec's noisy run is compared as information; the mixture backend's "
        "per-branch measurement is a named deviation in the spec (known finding).",
        "Noise strengths on the dyadic grid only; PSD via numpy eigenvalues; <= 3 qubits", "DESIGN.md 6/C06"),
}
