"""pid -> (technique, level text, level note, design ref) for every check that is built."""
REGISTRY = {
    "C07": (
        "TLA+ spec (StabState/Tableau) model-checked by TLC; TLC-enumerated tableaux replayed into the real API; "
        "random API histories trace-validated by TLC",
        "TLC enumerates all stabilizer states (N<=2 quick, N<=4 thorough) and all 11,520 two-qubit Clifford tableaux; "
        "every tableau-API action is applied by the real code from enumerated tableaux and along random histories, and "
        "TLC judges each observed tableau (binary, symplectic/paired, hermitian stabilizers, group = textbook successor).",
        "", "DESIGN.md 6/C07"),
}
